(* C01 — the reported matching is always a valid matching of the input instance. *)
From MP Require Import LP.Oracle Run.Main Text.Render Proofs.LPSound Proofs.RunStructure Proofs.MainEndToEnd Props.Examples.
Local Open Scope list_scope. Open Scope Z_scope.

(* every 0/1 point of the basic constraints (student <= 1, project and lecturer quotas, closures) denotes a
   valid matching: the integer program cannot contain an invalid one, whatever the solver picks *)
Theorem C01_lp_sound : forall (M : instance) (pc : bool) (v : assignment),
  wf M = true -> binary v -> all_sat v (upper_lower pc M) ->
  valid_b pc M (matching_of M v) = true.
Proof. exact lp_sound. Qed.
Print Assumptions C01_lp_sound.

(* the pairs with a non-zero variable (what the statistics are computed from) are exactly the pairs the
   printed matching line denotes *)
Theorem C01_assigned_is_matched : forall (M : instance) (v : assignment),
  wf M = true -> binary v -> all_sat v (student_constrs M) ->
  filter (fun q => negb (v (X (st q) (pr q)) =? 0)) (all_pairs M) = matched M (matching_of M v).
Proof. exact assigned_is_matched. Qed.
Print Assumptions C01_assigned_is_matched.

(* whole run: with any correct MILP back end (forall oracle satisfying milp_ok: any tie-break at any stage),
   any option set (-pc, -stab, any criteria list), an Optimal run prints a valid matching *)
Theorem C01_reported_valid : forall M o solve out,
  wf M = true -> milp_ok M solve -> run M o solve = Ok out -> out_status out = Optimal ->
  valid_b (o_pc o) M (matching_of M (val_fun (out_vals out))) = true.
Proof. exact reported_valid. Qed.
Print Assumptions C01_reported_valid.

(* every problem handed to the back end contains the basic constraints *)
Theorem C01_every_problem_has_base : forall M o solve out base,
  run M o solve = Ok out -> base_constrs M o = Ok base ->
  forall k P, nth_error (out_trace out) k = Some P -> exists extra, pb_cs P = base ++ extra.
Proof. intros M o solve out base H Hb. exact (proj1 (proj2 (run_structure M o solve out base H Hb))). Qed.
Print Assumptions C01_every_problem_has_base.

(* from the command line: Solver(argv) (Run/Main.v) on a file of the documented format, one solve with any correct
   MILP back end; when the status is Optimal, the values the results are printed from denote a valid matching of the
   instance the file denotes *)
Theorem C01_command_line : forall c A trailer t0 limit e s',
  acceptable_ns (c_ns c) (c_twopl c) (c_stab c) = true ->
  wf_ast (c_na c) (c_twopl c) A = true ->
  wf (denote (c_na c) (c_twopl c) A) = true ->
  c_bf c = false ->
  milp_ok (denote (c_na c) (c_twopl c) A) (e_solve e) ->
  (exists s, solver_new c (Some (render (c_na c) A trailer)) t0 = SReady s /\ do_solve s limit e = Ok s') ->
  s_status s' = "Optimal"%string ->
  valid_b (c_pc c) (denote (c_na c) (c_twopl c) A)
          (matching_of (denote (c_na c) (c_twopl c) A) (val_fun (s_vals s'))) = true.
Proof. exact command_line_valid. Qed.
Print Assumptions C01_command_line.

(* non-vacuity: a well-formed instance and a 0/1 point satisfying the basic constraints *)
Example C01_example :
  wf ex_inst = true /\ forallb (sat (canon ex_inst [] ex_matching)) (upper_lower false ex_inst) = true /\
  matching_of ex_inst (canon ex_inst [] ex_matching) = ex_matching.
Proof. vm_compute. repeat split; reflexivity. Qed.
