(* C04 — several criteria compose lexicographically in the user-given order. *)
From MP Require Import LP.Canon LP.Oracle Run.Main Text.Render Proofs.StageInv Proofs.StageAll Opts.SolverOpts Proofs.OptsProofs
                       Proofs.CommandLine Props.Examples.
Local Open Scope list_scope. Open Scope Z_scope.

(* the printed matching is optimal for the first criterion's stages among all feasible matchings, for the next
   criterion among those optimal for the first, and so on through the list, for every correct MILP back end *)
Theorem C04_lex_optimal : forall M o solve out,
  wf M = true -> admissible M o = true -> milp_ok M solve ->
  run M o solve = Ok out -> out_status out = Optimal ->
  LexOpt (Feas (o_pc o) (o_stab o) M) (map (prim_objective_spec M) (all_prims M o))
         (matching_of M (val_fun (out_vals out))).
Proof. exact run_lex_optimal_all. Qed.
Print Assumptions C04_lex_optimal.

(* the list order IS the position order, whatever the flag order: the parser returns the criteria by position *)
Theorem C04_order_by_position : forall (n : ns) (twopl stab : bool),
  parse_ns n twopl stab = parse_spec n twopl stab.
Proof. exact parse_ns_spec. Qed.
Print Assumptions C04_order_by_position.

(* a later criterion never worsens an earlier one: the final matching attains the optimum of the first stage
   over all feasible matchings *)
Corollary C04_first_never_worsened : forall M o solve out ob rest,
  wf M = true -> admissible M o = true -> milp_ok M solve ->
  run M o solve = Ok out -> out_status out = Optimal ->
  map (prim_objective_spec M) (all_prims M o) = ob :: rest ->
  forall m', Feas (o_pc o) (o_stab o) M m' ->
    as_good ob (ob_meas ob (matching_of M (val_fun (out_vals out)))) (ob_meas ob m') = true.
Proof.
  intros M o solve out ob rest Hwf Hadm Hok Hrun Hst He.
  pose proof (run_lex_optimal_all M o solve out Hwf Hadm Hok Hrun Hst) as H. rewrite He in H.
  exact (proj2 (LexOpt_head _ _ _ _ H)).
Qed.
Print Assumptions C04_first_never_worsened.

(* the whole statement on the Solver object: from the command line (criteria given with position numbers, any flag
   order, gaps allowed; Run/Main.v) on a file of the documented format, the matching the results are printed from is
   LexOpt for the stages of the requested criteria taken in increasing order of POSITION (cli_opts = by_position) *)
Theorem C04_command_line : forall c A trailer t0 limit e s s',
  acceptable_ns (c_ns c) (c_twopl c) (c_stab c) = true ->
  wf_ast (c_na c) (c_twopl c) A = true ->
  wf (denote (c_na c) (c_twopl c) A) = true ->
  admissible (denote (c_na c) (c_twopl c) A) (cli_opts c) = true ->
  c_bf c = false ->
  milp_ok (denote (c_na c) (c_twopl c) A) (e_solve e) ->
  solver_new c (Some (render (c_na c) A trailer)) t0 = SReady s -> do_solve s limit e = Ok s' ->
  s_status s' = "Optimal"%string ->
  LexOpt (Feas (c_pc c) (c_stab c) (denote (c_na c) (c_twopl c) A))
         (map (prim_objective_spec (denote (c_na c) (c_twopl c) A))
              (all_prims (denote (c_na c) (c_twopl c) A) (cli_opts c)))
         (matching_of (denote (c_na c) (c_twopl c) A) (val_fun (s_vals s'))).
Proof. exact command_line_lex_optimal. Qed.
Print Assumptions C04_command_line.

Example C04_example :
  let o := mkOpts false false [(MaxSize, []); (MinCost, [1; 1])] in
  admissible ex_inst o = true /\ all_prims ex_inst o = [PSize true; PCost 1 1] /\
  admissible ex_inst (mkOpts false false [(Generous, [7]); (MaxSize, [])]) = true /\
  all_prims ex_inst (mkOpts false false [(Generous, [7]); (MaxSize, [])]) = [PSize true].
Proof. vm_compute. repeat split; reflexivity. Qed.
