(* C04 — several criteria compose lexicographically in the user-given order. *)
From MP Require Import LP.Canon Proofs.StageInv Proofs.StageAll Opts.SolverOpts Proofs.OptsProofs Props.Examples.
Local Open Scope list_scope. Open Scope Z_scope.

(* the printed matching is optimal for the first criterion's stages among all feasible matchings, for the next
   criterion among those optimal for the first, and so on through the list, for every correct MILP back end *)
Theorem C04_lex_optimal : forall M o solve out,
  wf M = true -> admissible M o = true -> milp_ok M solve ->
  run M o solve = Ok out -> out_status out = Optimal ->
  LexOpt (Feas (o_pc o) (o_stab o) M) (map (prim_objective_spec M) (all_prims M o))
         (matching_of M (val_fun (out_vals out))).
Proof. exact run_lex_optimal_all. Qed.
Print Assumptions C04_lex_optimal.

(* the list order IS the position order, whatever the flag order: the parser returns the criteria by position *)
Theorem C04_order_by_position : forall (n : ns) (twopl stab : bool),
  parse_ns n twopl stab = parse_spec n twopl stab.
Proof. exact parse_ns_spec. Qed.
Print Assumptions C04_order_by_position.

(* a later criterion never worsens an earlier one: the final matching attains the optimum of the first stage
   over all feasible matchings *)
Corollary C04_first_never_worsened : forall M o solve out ob rest,
  wf M = true -> admissible M o = true -> milp_ok M solve ->
  run M o solve = Ok out -> out_status out = Optimal ->
  map (prim_objective_spec M) (all_prims M o) = ob :: rest ->
  forall m', Feas (o_pc o) (o_stab o) M m' ->
    as_good ob (ob_meas ob (matching_of M (val_fun (out_vals out)))) (ob_meas ob m') = true.
Proof.
  intros M o solve out ob rest Hwf Hadm Hok Hrun Hst He.
  pose proof (run_lex_optimal_all M o solve out Hwf Hadm Hok Hrun Hst) as H. rewrite He in H.
  exact (proj2 (LexOpt_head _ _ _ _ H)).
Qed.
Print Assumptions C04_first_never_worsened.

Example C04_example :
  let o := mkOpts false false [(MaxSize, []); (MinCost, [1; 1])] in
  admissible ex_inst o = true /\ all_prims ex_inst o = [PSize true; PCost 1 1] /\
  admissible ex_inst (mkOpts false false [(Generous, [7]); (MaxSize, [])]) = true /\
  all_prims ex_inst (mkOpts false false [(Generous, [7]); (MaxSize, [])]) = [PSize true].
Proof. vm_compute. repeat split; reflexivity. Qed.
