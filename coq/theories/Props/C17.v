(* C17 — popularity skew is linear with the requested ratio.  Exact rationals: every float skew is a
   rational, but the rounding of the float operations and of numpy.sum is not modelled (partial). *)
From MP Require Import Gen.Dist Proofs.DistProofs Corr.C17Corr Proofs.DistFast.
Open Scope Q_scope.

Theorem C17_length : forall n s, length (dist n s) = n.
Proof. exact dist_length. Qed.
Print Assumptions C17_length.

Theorem C17_positive : forall n s, (1 <= n)%nat -> 0 < s -> Forall (fun w => 0 < w) (dist n s).
Proof. exact dist_positive. Qed.
Print Assumptions C17_positive.

Theorem C17_sum_one : forall n s, (1 <= n)%nat -> 0 < s -> sumQ (dist n s) == 1.
Proof. exact dist_sum_one. Qed.
Print Assumptions C17_sum_one.

(* arithmetic progression: every step equals every other step *)
Theorem C17_progression : forall n s i j, (S i < n)%nat -> (S j < n)%nat ->
  nth (S i) (dist n s) 0 - nth i (dist n s) 0 == nth (S j) (dist n s) 0 - nth j (dist n s) 0.
Proof. exact dist_progression. Qed.
Print Assumptions C17_progression.

(* last term = s * first term (two or more agents) *)
Theorem C17_ratio : forall n s, (2 <= n)%nat -> 0 < s ->
  nth (n - 1) (dist n s) 0 == s * nth 0 (dist n s) 0.
Proof. exact dist_ratio. Qed.
Print Assumptions C17_ratio.

(* a single agent gets weight one *)
Theorem C17_single : forall s, 0 < s -> dist 1 s = [1 / (1 + 0)] /\ nth 0 (dist 1 s) 0 == 1.
Proof. exact dist_single. Qed.
Print Assumptions C17_single.

(* the evaluator the correspondence runs inside Coq computes the model (pointwise Qeq) *)
Theorem C17_evaluator_is_model : forall n s, Forall2 Qeq (dist_fast n s) (dist n s).
Proof. exact dist_fast_correct. Qed.
Print Assumptions C17_evaluator_is_model.

Example C17_example :
  map Qred (dist 4 (10 # 1)) = [1 # 22; 2 # 11; 7 # 22; 5 # 11] /\ (2 <= 4)%nat /\ 0 < 10 # 1.
Proof. split; [vm_compute; reflexivity|]. split; [repeat constructor|reflexivity]. Qed.
