(* C16 — criteria run in position order; invalid solver option sets are refused. *)
From MP Require Import Opts.SolverOpts Run.Main Text.Render Proofs.OptsProofs LP.Oracle Proofs.RunProofs Proofs.MainProofs.
Local Open Scope list_scope. Open Scope Z_scope.

(* the slot-array algorithm returns the requested criteria in increasing order of position, each with its
   extra arguments, for any namespace whose positions are within 1..9 and pairwise distinct (gaps allowed),
   and refuses (SystemExit 2) positions outside 1..9, shared positions and -stab without -twopl.
   Independence of the flag order is argparse's (the namespace does not record it; sampled by R_opts). *)
Theorem C16_parse : forall (n : ns) (twopl stab : bool),
  parse_ns n twopl stab = parse_spec n twopl stab.
Proof. exact parse_ns_spec. Qed.
Print Assumptions C16_parse.

(* the '- optimisation:' lines logged by a run are those of a prefix of the criteria list, in list order *)
Theorem C16_reported_prefix : forall base solve M cs s s',
  inv base solve s -> ready s -> run_crits M solve s cs = Ok s' ->
  exists j, (j <= length cs)%nat /\ r_info s' = r_info s +++ concat_str (map (crit_info M) (firstn j cs)).
Proof. intros base solve M cs s s' Hi Hr H. exact (proj2 (run_crits_inv base solve M cs s s' Hi Hr H)). Qed.
Print Assumptions C16_reported_prefix.

(* "Before reading the instance or solving it refuses ...": on the Solver as a whole (Run/Main.v solver_new: parse,
   then open and import the file, then the session) the outcome is the usage error exactly for the unacceptable option
   sets, whatever the file is (present, absent, malformed) *)
Theorem C16_refused_before_reading : forall c file t0,
  solver_new c file t0 = SUsage <-> acceptable_ns (c_ns c) (c_twopl c) (c_stab c) = false.
Proof. exact usage_iff_unacceptable. Qed.
Print Assumptions C16_refused_before_reading.

(* an acceptable option set on a file of the documented format starts the session on the denoted instance with the
   criteria in increasing order of position, extras kept with their criterion *)
Theorem C16_accepted_starts_session : forall c A trailer t0,
  acceptable_ns (c_ns c) (c_twopl c) (c_stab c) = true ->
  wf_ast (c_na c) (c_twopl c) A = true ->
  solver_new c (Some (render (c_na c) A trailer)) t0 =
    SReady (init_session (denote (c_na c) (c_twopl c) A)
                         (mkOpts (c_pc c) (c_stab c)
                                 (map (fun e => (e_crit e, e_extras e)) (by_position (SolverOpts.entries (c_ns c)))))
                         (c_bf c) (c_twopl c) t0).
Proof. exact accepted_starts_session. Qed.
Print Assumptions C16_accepted_starts_session.

Example C16_example :
  parse_ns [Some [7]; None; Some [2; 3]; None; Some [9; 1; 0]; None; None; None; None] true false
    = Ok [(Generous, [3]); (MaxSize, []); (MinCost, [1; 0])] /\
  parse_ns [Some [2]; None; Some [2]; None; None; None; None; None; None] true false = Crash SystemExit2 /\
  parse_ns [Some [1]; None; None; None; None; None; None; None; None] false true = Crash SystemExit2.
Proof. vm_compute. repeat split; reflexivity. Qed.
