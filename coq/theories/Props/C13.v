(* C13 — ties written by the generator are read back as the same ties by the solver.
   Only statements, [exact] of a lemma from Proofs/, and Print Assumptions. *)
From MP Require Import Base.PyStr Text.Ties Proofs.TiesProofs.
Open Scope Z_scope.

(* The writer never fails when there is one decision per entry, and keeps the entries in order. *)
Theorem C13_writer_total : forall l ties b,
  length ties = length l -> exists ts, write_from b l ties = Ok ts /\ map tok_num ts = l.
Proof. exact write_from_ok. Qed.
Print Assumptions C13_writer_total.

(* Balanced, non-nested parentheses (groups = Some _), around exactly the maximal runs of tied
   entries (a parenthesised group has >= 2 entries by construction of [groups]: "(n" and "n)" are
   different tokens), entry order preserved (concat of the runs is the list). *)
Theorem C13_writer_shape : forall l ties ts,
  write l ties = Ok ts -> groups ts = Some (runs l ties).
Proof. exact groups_write. Qed.
Print Assumptions C13_writer_shape.

Theorem C13_runs_partition : forall l ties, concat (runs l ties) = l.
Proof. exact concat_runs. Qed.
Print Assumptions C13_runs_partition.

(* A decision on the last entry has no effect. *)
Theorem C13_last_decision_irrelevant : forall l ties ties' b,
  length ties = length l -> length ties' = length l ->
  removelast ties = removelast ties' ->
  write_from b l ties = write_from b l ties'.
Proof. exact write_from_last_irrelevant. Qed.
Print Assumptions C13_last_decision_irrelevant.

(* Reader after writer, on tokens: entry i gets rank r_i with r_0 = 1 and
   r_{i+1} = r_i + (0 if the generator tied i with i+1, else 1). *)
Theorem C13_roundtrip_tokens : forall l ties ts,
  write l ties = Ok ts -> read ts = combine l (ranks_of l ties).
Proof. exact read_write. Qed.
Print Assumptions C13_roundtrip_tokens.

Theorem C13_ranks_dense : forall l ties r i,
  (S i < length l)%nat -> length ties = length l ->
  nth (S i) (ranks_from r l ties) 0 =
  nth i (ranks_from r l ties) 0 + (if nth i ties false then 0 else 1).
Proof. exact ranks_from_step. Qed.
Print Assumptions C13_ranks_dense.

(* The same on the characters the generator writes and the solver reads
   ('(' in t, t.replace, int(...)), for every integer entry. *)
Theorem C13_roundtrip_strings : forall l ties,
  length ties = length l ->
  exists ss, write_strings l ties = Ok ss /\ read_strings ss = Ok (l, ranks_of l ties).
Proof. exact read_strings_write_strings. Qed.
Print Assumptions C13_roundtrip_strings.

(* non-vacuity: a list with a tie at the start, one in the middle, and a decision on the last entry *)
Example C13_example :
  write_strings [4; 5; 1; 2; 3] [true; false; true; true; true]
    = Ok ["(4"; "5)"; "(1"; "2"; "3)"]%string
  /\ read_strings ["(4"; "5)"; "(1"; "2"; "3)"]%string = Ok ([4; 5; 1; 2; 3], [1; 1; 2; 2; 2])
  /\ runs [4; 5; 1; 2; 3] [true; false; true; true; true] = [[4; 5]; [1; 2; 3]].
Proof. vm_compute. repeat split; reflexivity. Qed.
