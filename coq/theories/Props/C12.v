(* C12 — second-side lists rank exactly the agents that find them acceptable.
   random.shuffle is a permutation oracle: the correspondence R_invert / R_genfile checks that every written
   second-side list is a permutation of the inversion proved correct here. *)
From MP Require Import Gen.Quotas Gen.Files Spec.SecondSide Proofs.GenProofs Proofs.SpaSecondSide Proofs.PipelineProofs
                       Proofs.SecondSideFile.
Local Open Scope list_scope. Open Scope Z_scope.

(* hospital / woman j lists resident / man i exactly once iff i lists j; nobody else appears *)
Theorem C12_invert : forall first n2 inv, 0 <= n2 ->
  (forall l, In l first -> nodupZ l = true) ->
  invert first n2 = Ok inv ->
  length inv = Z.to_nat n2 /\
  forall j i, 1 <= j <= n2 ->
    count_occZ (nth (Z.to_nat (j - 1)) inv []) i =
    if (1 <=? i) && (i <=? zlen first) && memZ j (nth (Z.to_nat (i - 1)) first []) then 1 else 0.
Proof. exact invert_spec. Qed.
Print Assumptions C12_invert.

(* the lecturers a student is handed to: exactly those offering one of the listed projects, each once *)
Theorem C12_student_lecturers : forall plec n3 prefs l,
  student_lec_list plec n3 prefs = Ok l ->
  nodupZ l = true /\
  forall k, In k l <-> (1 <= k <= n3 /\ exists p, In p prefs /\ py_nth plec (p - 1) = Ok k).
Proof. exact student_lec_list_spec. Qed.
Print Assumptions C12_student_lecturers.

(* SPA: lecturer k lists student i exactly once iff i lists at least one project that k offers; nobody else
   appears (students ranking several projects of one lecturer, lecturers nobody ranks, more lecturers than projects) *)
Theorem C12_spa_second_side : forall prefs plec n3 sl inv,
  0 <= n3 ->
  create_student_lec_lists prefs plec n3 = Ok sl -> invert sl n3 = Ok inv ->
  length inv = Z.to_nat n3 /\
  forall k i, 1 <= k <= n3 ->
    count_occZ (nth (Z.to_nat (k - 1)) inv []) i =
    if (1 <=? i) && (i <=? zlen prefs) && existsb (offers plec k) (nth (Z.to_nat (i - 1)) prefs []) then 1 else 0.
Proof. exact spa_second_side_spec. Qed.
Print Assumptions C12_spa_second_side.

(* the property on the written file: every two-sided file the generator writes (any accepted arguments, any draws
   honouring the RNG contract, i.e. any shuffle) is, line by line and up to blanks, the rendering of an abstract file
   A whose second-side lists contain each first-side agent that finds the owner acceptable exactly once and nobody
   else (Spec/SecondSide.v second_side_exact: hospitals / women for ha-sm-hr files, lecturers for spa files) *)
Theorem C12_generated_file : forall a d text,
  gargs_ok a -> draws_contract a d -> g_twopl a = true -> instance_text a d = Ok text ->
  exists A h T body rest,
    wf_ast (na_of a) true A = true /\
    ast_lines (na_of a) A = h :: T /\
    text = join " "%string h +++ NLs +++ body +++ rest /\ gen_ok body T /\
    f_n1 A = g_n1 a /\
    second_side_exact (na_of a) A (n_second a).
Proof. exact generated_file_second_side. Qed.
Print Assumptions C12_generated_file.

Example C12_example :
  invert [[2; 1]; [2]; [3; 1]] 3 = Ok [[1; 3]; [1; 2]; [3]] /\
  student_lec_list [1; 1; 2] 2 [3; 1] = Ok [1; 2] /\ student_lec_list [1; 1; 2] 2 [2; 1] = Ok [1].
Proof. vm_compute. repeat split; reflexivity. Qed.
