(* C12 — second-side lists rank exactly the agents that find them acceptable.
   random.shuffle is a permutation oracle: the correspondence R_invert / R_genfile checks that every written
   second-side list is a permutation of the inversion proved correct here. *)
From MP Require Import Gen.Quotas Proofs.GenProofs Proofs.SpaSecondSide.
Local Open Scope list_scope. Open Scope Z_scope.

(* hospital / woman j lists resident / man i exactly once iff i lists j; nobody else appears *)
Theorem C12_invert : forall first n2 inv, 0 <= n2 ->
  (forall l, In l first -> nodupZ l = true) ->
  invert first n2 = Ok inv ->
  length inv = Z.to_nat n2 /\
  forall j i, 1 <= j <= n2 ->
    count_occZ (nth (Z.to_nat (j - 1)) inv []) i =
    if (1 <=? i) && (i <=? zlen first) && memZ j (nth (Z.to_nat (i - 1)) first []) then 1 else 0.
Proof. exact invert_spec. Qed.
Print Assumptions C12_invert.

(* the lecturers a student is handed to: exactly those offering one of the listed projects, each once *)
Theorem C12_student_lecturers : forall plec n3 prefs l,
  student_lec_list plec n3 prefs = Ok l ->
  nodupZ l = true /\
  forall k, In k l <-> (1 <= k <= n3 /\ exists p, In p prefs /\ py_nth plec (p - 1) = Ok k).
Proof. exact student_lec_list_spec. Qed.
Print Assumptions C12_student_lecturers.

(* SPA: lecturer k lists student i exactly once iff i lists at least one project that k offers; nobody else
   appears (students ranking several projects of one lecturer, lecturers nobody ranks, more lecturers than projects) *)
Theorem C12_spa_second_side : forall prefs plec n3 sl inv,
  0 <= n3 ->
  create_student_lec_lists prefs plec n3 = Ok sl -> invert sl n3 = Ok inv ->
  length inv = Z.to_nat n3 /\
  forall k i, 1 <= k <= n3 ->
    count_occZ (nth (Z.to_nat (k - 1)) inv []) i =
    if (1 <=? i) && (i <=? zlen prefs) && existsb (offers plec k) (nth (Z.to_nat (i - 1)) prefs []) then 1 else 0.
Proof. exact spa_second_side_spec. Qed.
Print Assumptions C12_spa_second_side.

Example C12_example :
  invert [[2; 1]; [2]; [3; 1]] 3 = Ok [[1; 3]; [1; 2]; [3]] /\
  student_lec_list [1; 1; 2] 2 [3; 1] = Ok [1; 2] /\ student_lec_list [1; 1; 2] 2 [2; 1] = Ok [1].
Proof. vm_compute. repeat split; reflexivity. Qed.
