(* C02 — the solver reports Optimal exactly when a feasible matching exists; never errors. *)
From MP Require Import LP.Canon Proofs.StageInv Proofs.StageAll Proofs.CanonProofs Props.Examples.
Local Open Scope list_scope. Open Scope Z_scope.

(* for every well-formed instance, every admissible option set (-pc, -stab on two-sided instances, any list of
   distinct criteria with non-negative multipliers and in-range cut-offs) and every correct MILP back end: the
   run terminates without raising (no constraint-builder failure, no duplicate variable name) *)
Theorem C02_no_crash : forall M o solve,
  wf M = true -> admissible M o = true -> milp_ok M solve -> exists out, run M o solve = Ok out.
Proof. exact run_total. Qed.
Print Assumptions C02_no_crash.

(* ... Optimal iff some matching satisfies the requested constraints (valid, and stable with -stab), Infeasible
   otherwise: requesting criteria never turns a feasible instance into a reported-infeasible one *)
Theorem C02_status : forall M o solve out,
  wf M = true -> admissible M o = true -> milp_ok M solve -> run M o solve = Ok out ->
  ((exists m, Feas (o_pc o) (o_stab o) M m) -> out_status out = Optimal) /\
  ((~ exists m, Feas (o_pc o) (o_stab o) M m) -> out_status out = Infeasible).
Proof. exact run_status_all. Qed.
Print Assumptions C02_status.

(* the bounds of the objective variables allow every attainable value (where the repaired F01-F05 lived) *)
Theorem C02_bounds : forall M pc o m p, wf M = true -> admissible M o = true -> valid_b pc M m = true ->
  In p (all_prims M o) -> 0 <= prim_meas M p m <= prim_ub M p.
Proof. exact meas_bounds. Qed.
Print Assumptions C02_bounds.

(* completeness of the basic constraints: every valid matching is a point of the integer program *)
Theorem C02_complete : forall M pc prims m, wf M = true -> valid_b pc M m = true ->
  all_sat (canon M prims m) (upper_lower pc M) /\ matching_of M (canon M prims m) = m.
Proof.
  intros M pc prims m Hwf Hv. split; [now apply canon_upper_lower|].
  apply matching_of_canon; [exact Hwf|]. unfold valid_b in Hv.
  apply andb_true_iff in Hv as [Hv _]. now apply andb_true_iff in Hv as [Hv _].
Qed.
Print Assumptions C02_complete.

Example C02_example :
  wf ex_inst = true /\
  admissible ex_inst (mkOpts false true [(MaxSize, []); (MinCost, [1; 2]); (Generous, [1])]) = true /\
  Feas false true ex_inst ex_matching.
Proof. split; [vm_compute; reflexivity|]. split; [vm_compute; reflexivity|]. split; [|intros _]; vm_compute; reflexivity. Qed.
