(* C07 — brute-force mode reports the exact optimum of every statistic it prints. *)
From MP Require Import Spec.BFSpec Proofs.BFProofs Props.Examples.
Local Open Scope list_scope. Open Scope Z_scope.

(* for every well-formed instance, with or without -pc: the run never fails and the printed text is the text of
   the declarative optima over all valid matchings (Spec/BFSpec.v): "Infeasible" iff no valid matching;
   otherwise the maximum size; over maximum-size matchings the least cost pair, degree, squared-cost pair, the
   most generous and most greedy profile; over all valid matchings the most greedy profile and the least maximum
   and total lecturer deviation *)
Theorem C07_text : forall (pc : bool) (M : instance),
  wf M = true -> bf_results pc M = Ok (bf_spec_text pc M).
Proof. exact bf_correct. Qed.
Print Assumptions C07_text.

Theorem C07_accumulators : forall (pc : bool) (M : instance) (a : bf_acc),
  wf M = true -> bf_run pc M = Ok a ->
  (all_valid pc M = [] /\ o_size a = -1) \/
  (all_valid pc M <> [] /\ 0 <= o_size a /\ bf_spec pc M = Some a).
Proof. exact bf_run_spec. Qed.
Print Assumptions C07_accumulators.

Theorem C07_no_crash : forall pc M, wf M = true -> exists a, bf_run pc M = Ok a.
Proof. exact bf_no_crash. Qed.
Print Assumptions C07_no_crash.

Theorem C07_infeasible_iff : forall pc M a,
  wf M = true -> bf_run pc M = Ok a -> (o_size a = -1 <-> all_valid pc M = []).
Proof. exact bf_infeasible_iff. Qed.
Print Assumptions C07_infeasible_iff.

(* every printed profile has one entry per rank up to the maximum rank *)
Theorem C07_profile_length : forall M m, length (profile M m) = Z.to_nat (max_rank M).
Proof.
  intros M m. unfold profile. rewrite map_length.
  generalize 1 as a. induction (Z.to_nat (max_rank M)) as [|n IH]; intro a; simpl; [reflexivity|now rewrite IH].
Qed.
Print Assumptions C07_profile_length.

Example C07_example :
  wf ex_inst = true /\
  match bf_run false ex_inst with Ok a => o_size a = 3 /\ o_gre a = [3; 0] | Crash _ => False end.
Proof. vm_compute. repeat split; reflexivity. Qed.
