(* C07 — brute-force mode reports the exact optimum of every statistic it prints. *)
From MP Require Import Spec.BFSpec LP.Build LP.Run LP.Oracle Proofs.BFProofs Proofs.CrossCheck Props.Examples.
Local Open Scope list_scope. Open Scope Z_scope.

(* for every well-formed instance, with or without -pc: the run never fails and the printed text is the text of
   the declarative optima over all valid matchings (Spec/BFSpec.v): "Infeasible" iff no valid matching;
   otherwise the maximum size; over maximum-size matchings the least cost pair, degree, squared-cost pair, the
   most generous and most greedy profile; over all valid matchings the most greedy profile and the least maximum
   and total lecturer deviation *)
Theorem C07_text : forall (pc : bool) (M : instance),
  wf M = true -> bf_results pc M = Ok (bf_spec_text pc M).
Proof. exact bf_correct. Qed.
Print Assumptions C07_text.

Theorem C07_accumulators : forall (pc : bool) (M : instance) (a : bf_acc),
  wf M = true -> bf_run pc M = Ok a ->
  (all_valid pc M = [] /\ o_size a = -1) \/
  (all_valid pc M <> [] /\ 0 <= o_size a /\ bf_spec pc M = Some a).
Proof. exact bf_run_spec. Qed.
Print Assumptions C07_accumulators.

Theorem C07_no_crash : forall pc M, wf M = true -> exists a, bf_run pc M = Ok a.
Proof. exact bf_no_crash. Qed.
Print Assumptions C07_no_crash.

Theorem C07_infeasible_iff : forall pc M a,
  wf M = true -> bf_run pc M = Ok a -> (o_size a = -1 <-> all_valid pc M = []).
Proof. exact bf_infeasible_iff. Qed.
Print Assumptions C07_infeasible_iff.

(* every printed profile has one entry per rank up to the maximum rank *)
Theorem C07_profile_length : forall M m, length (profile M m) = Z.to_nat (max_rank M).
Proof.
  intros M m. unfold profile. rewrite map_length.
  generalize 1 as a. induction (Z.to_nat (max_rank M)) as [|n IH]; intro a; simpl; [reflexivity|now rewrite IH].
Qed.
Print Assumptions C07_profile_length.

(* the brute-force cross-check: what the integer-programming mode reaches for a criterion, with ANY correct MILP back
   end, is the optimum brute-force mode prints (the two modes can be compared, as the repository's Evaluations do) *)
Theorem C07_crosscheck_maxsize_mincost : forall M pc solve out a,
  wf M = true -> admissible M (mkOpts pc false [(MaxSize, []); (MinCost, [])]) = true -> milp_ok M solve ->
  run M (mkOpts pc false [(MaxSize, []); (MinCost, [])]) solve = Ok out -> out_status out = Optimal ->
  bf_run pc M = Ok a ->
  o_size a = size (matching_of M (val_fun (out_vals out))) /\
  fst (o_mincost a) = cost_s M (matching_of M (val_fun (out_vals out))).
Proof. exact crosscheck_maxsize_mincost. Qed.
Print Assumptions C07_crosscheck_maxsize_mincost.

Theorem C07_crosscheck_profiles : forall M pc solve out a,
  wf M = true -> milp_ok M solve -> out_status out = Optimal -> bf_run pc M = Ok a ->
  (admissible M (mkOpts pc false [(Greedy, [])]) = true -> run M (mkOpts pc false [(Greedy, [])]) solve = Ok out ->
     o_gre a = profile M (matching_of M (val_fun (out_vals out)))) /\
  (admissible M (mkOpts pc false [(MaxSize, []); (Greedy, [])]) = true ->
   run M (mkOpts pc false [(MaxSize, []); (Greedy, [])]) solve = Ok out ->
     o_gremax a = profile M (matching_of M (val_fun (out_vals out)))) /\
  (admissible M (mkOpts pc false [(MaxSize, []); (Generous, [])]) = true ->
   run M (mkOpts pc false [(MaxSize, []); (Generous, [])]) solve = Ok out ->
     o_genmax a = profile M (matching_of M (val_fun (out_vals out)))).
Proof.
  intros M pc solve out a Hwf Hok Hst Hbf. repeat split; intros Hadm Hrun.
  - exact (crosscheck_greedy M pc solve out a Hwf Hadm Hok Hrun Hst Hbf).
  - exact (crosscheck_maxsize_greedy M pc solve out a Hwf Hadm Hok Hrun Hst Hbf).
  - exact (crosscheck_maxsize_generous M pc solve out a Hwf Hadm Hok Hrun Hst Hbf).
Qed.
Print Assumptions C07_crosscheck_profiles.

Theorem C07_crosscheck_load_balance : forall M pc solve out a,
  wf M = true -> milp_ok M solve -> out_status out = Optimal -> bf_run pc M = Ok a ->
  (admissible M (mkOpts pc false [(LoadMaxBal, [])]) = true -> run M (mkOpts pc false [(LoadMaxBal, [])]) solve = Ok out ->
     o_maxdiff a = max_abs_diff M (matching_of M (val_fun (out_vals out)))) /\
  (admissible M (mkOpts pc false [(LoadSumBal, [])]) = true -> run M (mkOpts pc false [(LoadSumBal, [])]) solve = Ok out ->
     o_sumdiff a = sum_abs_diff M (matching_of M (val_fun (out_vals out)))).
Proof.
  intros M pc solve out a Hwf Hok Hst Hbf. split; intros Hadm Hrun.
  - exact (crosscheck_loadmaxbal M pc solve out a Hwf Hadm Hok Hrun Hst Hbf).
  - exact (crosscheck_loadsumbal M pc solve out a Hwf Hadm Hok Hrun Hst Hbf).
Qed.
Print Assumptions C07_crosscheck_load_balance.

Example C07_example :
  wf ex_inst = true /\
  match bf_run false ex_inst with Ok a => o_size a = 3 /\ o_gre a = [3; 0] | Crash _ => False end.
Proof. vm_compute. repeat split; reflexivity. Qed.
