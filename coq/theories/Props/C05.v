(* C05 — with stability requested the solver searches exactly the stable matchings. *)
From MP Require Import LP.Canon LP.Oracle Run.Main Text.Render Proofs.LPSound Proofs.StabProofs Proofs.StabRun Proofs.CommandLine
                       Props.Examples.
Local Open Scope list_scope. Open Scope Z_scope.

(* the constraint builder never fails on two-sided instances *)
Theorem C05_constraints_total : forall M, two_sided M = true -> exists cs, stability_constrs M = Ok cs.
Proof. exact stability_constrs_total. Qed.
Print Assumptions C05_constraints_total.

(* soundness: every 0/1 point of the basic + alpha/beta/gamma constraints denotes a matching without a
   blocking pair by the SPA-STL definition (conditions 2, 3a, 3b, 3c of Spec/Stability.v), for every two-sided
   well-formed instance: ties on either side, shared lecturers, lecturer capacity below the sum of its projects,
   zero capacities, with or without closures *)
Theorem C05_sound : forall (M : instance) (pc : bool) (v : assignment) (cs : list constr),
  wf M = true -> two_sided M = true -> binary v -> binary_ab v ->
  all_sat v (upper_lower pc M) -> stability_constrs M = Ok cs -> all_sat v cs ->
  stable_b M (matching_of M v) = true.
Proof. exact stab_sound. Qed.
Print Assumptions C05_sound.

(* completeness: no stable valid matching is excluded — its canonical assignment satisfies every stability row *)
Theorem C05_complete : forall (M : instance) (pc : bool) (m : matching) (cs : list constr) (prims : list prim),
  wf M = true -> two_sided M = true -> valid_b pc M m = true -> stable_b M m = true ->
  stability_constrs M = Ok cs ->
  all_sat (canon M prims m) cs /\ binary_ab (canon M prims m).
Proof. exact stab_complete. Qed.
Print Assumptions C05_complete.

(* whole run: with -stab, any correct MILP back end, any criteria: an Optimal run prints a stable matching *)
Theorem C05_reported_stable : forall M o solve out,
  wf M = true -> two_sided M = true -> o_stab o = true ->
  milp_ok M solve -> run M o solve = Ok out -> out_status out = Optimal ->
  stable_b M (matching_of M (val_fun (out_vals out))) = true.
Proof. exact reported_stable. Qed.
Print Assumptions C05_reported_stable.

(* on the Solver object: from the command line with -stab -twopl on a two-sided file of the documented format, an
   Optimal solve prints a stable matching *)
Theorem C05_command_line : forall c A trailer t0 limit e s s',
  acceptable_ns (c_ns c) (c_twopl c) (c_stab c) = true ->
  wf_ast (c_na c) (c_twopl c) A = true ->
  wf (denote (c_na c) (c_twopl c) A) = true -> two_sided (denote (c_na c) (c_twopl c) A) = true ->
  c_bf c = false -> c_stab c = true ->
  milp_ok (denote (c_na c) (c_twopl c) A) (e_solve e) ->
  solver_new c (Some (render (c_na c) A trailer)) t0 = SReady s -> do_solve s limit e = Ok s' ->
  s_status s' = "Optimal"%string ->
  stable_b (denote (c_na c) (c_twopl c) A)
           (matching_of (denote (c_na c) (c_twopl c) A) (val_fun (s_vals s'))) = true.
Proof. exact command_line_stable. Qed.
Print Assumptions C05_command_line.

Example C05_example :
  wf ex_inst = true /\ two_sided ex_inst = true /\ stable_b ex_inst ex_matching = true /\
  stable_b ex_inst [3; 0; 0] = false /\
  match stability_constrs ex_inst with
  | Ok cs => forallb (sat (canon ex_inst [] ex_matching)) cs = true /\ length cs = 18%nat
  | Crash _ => False end.
Proof. vm_compute. repeat split; reflexivity. Qed.
