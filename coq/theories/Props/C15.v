(* C15 — the generator accepts every documented argument set and cleanly rejects invalid ones. *)
From MP Require Import Gen.Args Gen.ArgsBridge Proofs.ArgsProofs Proofs.PipelineProofs Proofs.ArgsGen.
Local Open Scope list_scope. Open Scope Z_scope.

(* the code's checks (required / inapplicable tables, defaults, bound checks in the code's order, python's
   comparisons with None included) accept exactly the documented argument sets, reject all others with a usage
   error, and never fail with an exception.  That parse precedes every makedirs/open is checked on the
   implementation (M_genargs: no directory exists after a rejection). *)
Theorem C15_decide : forall a : namespace,
  decide a = if documented_ok a then Accept (with_defaults a) else Reject.
Proof. exact decide_spec. Qed.
Print Assumptions C15_decide.

(* "is accepted and produces the instances without error": the generator as a whole (parser, defaults, instance
   writers; Gen/ArgsBridge.v generator_run) on a documented argument set writes exactly numinst files 0.txt, 1.txt, ...
   for any draws that honour the random-number contract *)
Theorem C15_accepted_generates : forall a t1 t2 sk lts ds,
  documented_ok a = true ->
  length ds = Z.to_nat (a_numinst a) ->
  (forall d, In d ds -> draws_contract (gargs_of (with_defaults a) t1 t2 sk lts) d) ->
  exists files, generator_run a t1 t2 sk lts ds = GFiles files /\
                length files = Z.to_nat (a_numinst a) /\
                map fst files = map (fun k => sZ k +++ ".txt"%string) (rangeZ (a_numinst a)).
Proof. exact accepted_args_generate. Qed.
Print Assumptions C15_accepted_generates.

(* any other argument set ends in the usage error and nothing is generated *)
Theorem C15_rejected_writes_nothing : forall a t1 t2 sk lts ds,
  documented_ok a = false -> generator_run a t1 t2 sk lts ds = GUsage.
Proof. exact rejected_args_write_nothing. Qed.
Print Assumptions C15_rejected_writes_nothing.

(* the generator never fails with an exception unless the random draws break their contract *)
Theorem C15_crash_needs_bad_draws : forall a t1 t2 sk lts ds e,
  generator_run a t1 t2 sk lts ds = GCrash e -> length ds = Z.to_nat (a_numinst a) ->
  ~ (forall d, In d ds -> draws_contract (gargs_of (with_defaults a) t1 t2 sk lts) d).
Proof. exact generator_crash_needs_bad_draws. Qed.
Print Assumptions C15_crash_needs_bad_draws.

Example C15_example :
  let sm := mkNS 1 SM true None (Some 3) None None (Some 1) (Some 2) None None None None None None None in
  let spa_bad := mkNS 1 SPA false None (Some 3) (Some 2) (Some 2) (Some 1) (Some 2) None None None (Some 1) (Some 2) (Some 2) None in
  documented_ok sm = true /\ documented_ok spa_bad = false /\ decide spa_bad = Reject.
Proof. vm_compute. repeat split; reflexivity. Qed.

(* the composed generator on a concrete documented HR argument set and two recorded draws: two files, 0.txt and 1.txt *)
Example C15_generates_example :
  let ns := mkNS 2 HR true None (Some 3) (Some 2) None (Some 1) (Some 2) None None None None (Some 3) None None in
  let d := mkDraws [[1;2];[2];[2;1]] [[false;false];[false];[true;false]] [[3;1];[2;1;3]]
                   [[false;false];[false;true;false]] in
  documented_ok ns = true /\
  match generator_run ns "0.0" "0.0" "1.0" "0.0" [d; d] with
  | GFiles fs => map fst fs = ["0.txt"%string; "1.txt"%string]
  | _ => False
  end.
Proof. vm_compute. split; reflexivity. Qed.
