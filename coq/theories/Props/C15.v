(* C15 — the generator accepts every documented argument set and cleanly rejects invalid ones. *)
From MP Require Import Gen.Args Proofs.ArgsProofs.
Local Open Scope list_scope. Open Scope Z_scope.

(* the code's checks (required / inapplicable tables, defaults, bound checks in the code's order, python's
   comparisons with None included) accept exactly the documented argument sets, reject all others with a usage
   error, and never fail with an exception.  That parse precedes every makedirs/open is checked on the
   implementation (M_genargs: no directory exists after a rejection). *)
Theorem C15_decide : forall a : namespace,
  decide a = if documented_ok a then Accept (with_defaults a) else Reject.
Proof. exact decide_spec. Qed.
Print Assumptions C15_decide.

Example C15_example :
  let sm := mkNS 1 SM true None (Some 3) None None (Some 1) (Some 2) None None None None None None None in
  let spa_bad := mkNS 1 SPA false None (Some 3) (Some 2) (Some 2) (Some 1) (Some 2) None None None (Some 1) (Some 2) (Some 2) None in
  documented_ok sm = true /\ documented_ok spa_bad = false /\ decide spa_bad = Reject.
Proof. vm_compute. repeat split; reflexivity. Qed.
