From MP Require Import Text.Import BF.BruteForce Spec.BFSpec.
Open Scope Z_scope.

(* R_bf: Brute_force_solver.run(); get_results() vs the model *)
Definition c07_bf (text : string) (na : Z) (twopl pc : bool) (impl : result string) : bool :=
  match import_model text na twopl with
  | Ok M => result_eqb String.eqb (bf_results pc M) impl
  | Crash _ => false
  end.

(* M_bf: on well-formed instances the printed text is the exact optimum of every statistic *)
Definition c07_spec (text : string) (na : Z) (twopl pc : bool) (impl : result string) : bool :=
  match import_model text na twopl with
  | Ok M => if wf M then result_eqb String.eqb impl (Ok (bf_spec_text pc M)) else true
  | Crash _ => false
  end.
