From MP Require Import Text.Import Opts.SolverOpts Run.Main Corr.C14Corr.
Local Open Scope string_scope.
Local Open Scope list_scope.
Open Scope Z_scope.

Definition crits_eqb (a b : list (crit * list Z)) : bool :=
  list_eqb (fun x y => crit_eqb (fst x) (fst y) && list_eqb Z.eqb (snd x) (snd y)) a b.

(* R_opts: Options_parser().parse(argv).optimisation_options vs the model *)
Definition c16_opts (n : ns) (twopl stab : bool) (impl : result (list (crit * list Z))) : bool :=
  result_eqb crits_eqb (parse_ns n twopl stab) impl.

(* M_opts: against the specification (order by position; refusal of bad positions, duplicates, stab w/o twopl) *)
Definition c16_spec (n : ns) (twopl stab : bool) (impl : result (list (crit * list Z))) : bool :=
  result_eqb crits_eqb (parse_spec n twopl stab) impl.

(* M_refuse: Solver(args) with a missing file: SystemExit(2) exactly for unacceptable option sets, i.e. the
   refusal precedes reading the instance (an acceptable set gets as far as the missing file) *)
Definition c16_refuse (n : ns) (twopl stab : bool) (impl_is_exit2 impl_is_missing_file : bool) : bool :=
  if acceptable_ns n twopl stab then impl_is_missing_file && negb impl_is_exit2
  else impl_is_exit2 && negb impl_is_missing_file.

(* M_info: the '- optimisation:' lines of the results are a prefix of the lines of the criteria in position
   order, the whole list when the run ended Optimal *)
Fixpoint prefix_list (p l : list string) : bool :=
  match p, l with
  | [], _ => true
  | a :: p', b :: l' => String.eqb a b && prefix_list p' l'
  | _, _ => false
  end.

Definition opt_lines (info : string) : list string :=
  filter (prefix_b "- optimisation:") (lines info).

Definition c16_info (text : string) (na : Z) (n : ns) (twopl stab : bool) (optimal : bool) (info : string) : bool :=
  match import_model text na twopl with
  | Crash _ => false
  | Ok M =>
      let expected := flat_map (fun e => lines (crit_info M (e_crit e, e_extras e))) (by_position (entries n)) in
      let got := opt_lines info in
      prefix_list got expected &&
      (negb optimal || Nat.eqb (length got) (length expected))
  end.


(* R_main: Solver(argv) as a whole (Run/Main.v solver_new).  impl_class: 0 constructed, 2 SystemExit(2),
   3 FileNotFoundError, 1 any other exception; for a constructed Solver also its criteria list and the text of
   get_debug() before any solve (the instance the solver works on) *)
Definition c16_main (c : cli) (file : option string) (impl_class : Z) (impl_crits : list (crit * list Z))
           (impl_debug : string) : bool :=
  match solver_new c file 0 with
  | SUsage => impl_class =? 2
  | SNoFile => impl_class =? 3
  | SBadFile _ => impl_class =? 1
  | SReady s => (impl_class =? 0) && crits_eqb (o_crits (s_opts s)) impl_crits &&
                String.eqb (debug_text s) impl_debug
  end.
