(* Judge of C14 on the implementation's result text. *)
From MP Require Import Base.PyStr LP.Run.
Local Open Scope string_scope.
Local Open Scope list_scope.

Fixpoint prefix_b (p s : string) : bool :=
  match p, s with
  | EmptyString, _ => true
  | String a p', String b s' => Ascii.eqb a b && prefix_b p' s'
  | _, _ => false
  end.

Fixpoint contains_str (p s : string) : bool :=
  prefix_b p s || match s with EmptyString => false | String _ s' => contains_str p s' end.

Definition stat_words : list string :=
  ["matching:"; "size:"; "cost:"; "cost_sq:"; "degree:"; "profile:"; "max_lec_abs_diff:"; "sum_lec_abs_diff:";
   "Student_assignments"; "Project_assignments"; "Lecturer_assignments"; "stability_correct"].

Fixpoint first_nonopt (sts : list (status * bool)) : option status :=
  match sts with
  | [] => None
  | (s, _) :: t => if status_eqb s Optimal then first_nonopt t else Some s
  end.

(* sts: per performed solve, the status it ended with and whether it was a time-limit stop with an incumbent.
   has_limit / exceeded: a time limit was set / the run's total time exceeded it (from the scripted clock). *)
Definition c14_verdict (has_limit exceeded : bool) (sts : list (status * bool)) (text : string) : bool :=
  let bad := existsb (fun sb => negb (status_eqb (fst sb) Optimal) || snd sb) sts in
  if negb bad then true
  else
    forallb (fun w => negb (contains_str w text)) stat_words &&
    (let unsolved := match first_nonopt sts with Some NotSolved => true | _ => false end in
     if has_limit && (exceeded || unsolved) then contains_str "Timeout" text
     else match first_nonopt sts with
          | Some s => contains_str ("pulp_status: " +++ status_string s) text
          | None => false      (* an incumbent stop without exceeding the limit cannot happen *)
          end).
