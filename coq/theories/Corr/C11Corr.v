From MP Require Import Text.Import Spec.ResultsSpec Checker.CheckStability Run.Results.
Local Open Scope string_scope.
Open Scope Z_scope.

Definition pick (row : list pair) (v : list bool) : list pair := map fst (filter snd (combine row v)).

(* _get_pair_assignments / _get_pair_assignments_with_none for a 0/1 value per pair *)
Definition pa_of (rows : list (list pair)) (vals : list (list bool)) : list pair :=
  concat (map (fun rv => pick (fst rv) (snd rv)) (combine rows vals)).
Definition pa_none_of (rows : list (list pair)) (vals : list (list bool)) : list (option pair) :=
  concat (map (fun rv => match pick (fst rv) (snd rv) with [] => [None] | l => map Some l end) (combine rows vals)).

Definition show_bool (b : bool) : string := if b then "True" else "False".

Definition ri_fixed (info : string) : run_info := mkRunInfo "#HDR" info "Optimal" None "T1" "T2" "T3".

Definition model_results (M : instance) (info : string) (vals : list (list bool)) (long stab : bool) : result string :=
  let pa := pa_of (pairs M) vals in
  do sb <- (if stab then do b <- check_stability M (pa_none_of (pairs M) vals); Ok (Some (show_bool b))
            else Ok None);
  Ok (get_results M (ri_fixed info) pa long sb).

(* R_results *)
Definition c11_results (text : string) (na : Z) (twopl : bool) (info : string) (vals : list (list bool))
           (long stab : bool) (impl : result string) : bool :=
  match import_model text na twopl with
  | Ok M => result_eqb String.eqb (model_results M info vals long stab) impl
  | Crash _ => false
  end.

(* M_results: the printed block equals what the instance file and the printed matching line imply *)
Definition c11_spec (text : string) (na : Z) (twopl : bool) (info : string) (m : matching) (long : bool)
           (impl : string) : bool :=
  match import_model text na twopl with
  | Ok M => String.eqb impl (results_frame (ri_fixed info) None (spec_stats_text M m long))
  | Crash _ => false
  end.

(* M_results_run: the statistics block printed by a real run equals what the file and the printed matching line
   imply *)
Definition c11_block (text : string) (na : Z) (twopl : bool) (m : matching) (long : bool) (block : string) : bool :=
  match import_model text na twopl with
  | Ok M => String.eqb block (spec_stats_text M m long)
  | Crash _ => false
  end.
