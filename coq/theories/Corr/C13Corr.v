(* Case-check functions evaluated by the generated cases files of C13. *)
From MP Require Import Base.PyStr Text.Ties.
Open Scope Z_scope.

Definition strs_eqb := list_eqb String.eqb.
Definition zs_eqb := list_eqb Z.eqb.

(* R_tiewr: model writer vs create_string_pref *)
Definition c13_writer (l : list Z) (ties : list bool) (impl : result (list string)) : bool :=
  result_eqb strs_eqb (write_strings l ties) impl.

(* R_tierd: model reader vs _get_simple_pref_list_and_ranks *)
Definition c13_reader (ss : list string) (impl : result (list Z * list Z)) : bool :=
  result_eqb (prod_eqb zs_eqb zs_eqb) (read_strings ss) impl.

(* M_roundtrip: the implementation's writer output followed by its reader, against the specification:
   tokens denote the maximal runs, entries preserved, ranks are the dense ranks of the decisions *)
Definition c13_roundtrip (l : list Z) (ties : list bool) (impl_tokens : list string)
           (impl_list impl_ranks : list Z) : bool :=
  zs_eqb impl_list l && zs_eqb impl_ranks (ranks_of l ties) &&
  match mapM lex_tok impl_tokens with
  | Ok ts => option_eqb (list_eqb zs_eqb) (groups ts) (Some (runs l ties))
  | Crash _ => false
  end.

(* M_file: ranks the solver holds after loading a generated file *)
Definition c13_file (l : list Z) (ties : list bool) (impl : list (Z * Z)) : bool :=
  list_eqb (prod_eqb Z.eqb Z.eqb) impl (combine l (ranks_of l ties)).
