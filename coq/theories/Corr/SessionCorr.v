From MP Require Import Text.Import Run.Session Corr.LPCorr.
Local Open Scope string_scope.
Local Open Scope list_scope.
Open Scope Z_scope.

(* one recorded operation: the op, the clock readings and recorded solves it consumed, what the caller saw *)
Record rec_op := mkRec { ro_op : op; ro_clock : list Z; ro_snaps : list snap; ro_seen : result string }.

Fixpoint drive (M : instance) (s : session) (ops : list rec_op) : bool :=
  match ops with
  | [] => true
  | r :: t =>
      let e := mkEnv (ro_clock r) (replay (ro_snaps r)) in
      let trace_ok :=
        match ro_op r with
        | OSolve _ =>
            if s_bf s then true
            else match run M (s_opts s) (replay (ro_snaps r)) with
                 | Ok out => all2b (snap_matches M) (out_trace out) (ro_snaps r)
                 | Crash _ => true
                 end
        | OGet _ => true
        end in
      match step s (ro_op r) e, ro_seen r with
      | Ok (s', txt), Ok seen => trace_ok && String.eqb txt seen && drive M s' t
      | Crash e1, Crash e2 => err_eqb e1 e2      (* the history stops at the first exception *)
      | _, _ => false
      end
  end.

(* R_session *)
Definition c_session (text : string) (na : Z) (twopl : bool) (o : opts) (bf : bool) (t0 : Z) (ops : list rec_op) : bool :=
  match import_model text na twopl with
  | Ok M => drive M (init_session M o bf twopl t0) ops
  | Crash _ => false
  end.
