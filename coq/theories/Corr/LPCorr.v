(* Comparison of the problems recorded at pulp.LpProblem.solve with the model's trace, with the recorded
   answers replayed as the oracle. *)
From MP Require Import Text.Import LP.Run LP.Oracle Run.Results.
Local Open Scope string_scope.
Local Open Scope list_scope.
Open Scope Z_scope.

(* what the recorder saw at one solve *)
Record snap := mkSnap {
  sn_cs : list constr;
  sn_objective : lin;
  sn_bounds : list (var * (Z * Z));
  sn_dup_names : bool;
  sn_answer : answer }.

Definition snap_matches (M : instance) (P : problem) (s : snap) : bool :=
  constrs_eqb (pb_cs P) (sn_cs s) &&
  lin_eqb (pb_objective P) (sn_objective s) &&
  forallb (fun xb => let mb := model_bounds M (pb_objs P) (fst xb) in
                     (fst mb =? fst (snd xb)) && (snd mb =? snd (snd xb))) (sn_bounds s) &&
  Bool.eqb (sn_dup_names s) (negb (names_ok (pb_objs P))).

Fixpoint all2b {A B} (f : A -> B -> bool) (l : list A) (m : list B) : bool :=
  match l, m with
  | [], [] => true
  | a :: l', b :: m' => f a b && all2b f l' m'
  | _, _ => false
  end.

Definition replay (snaps : list snap) : oracle :=
  fun k _ => match nth_error snaps k with Some s => sn_answer s | None => mkAns NotSolved [] end.

(* R_lp: every problem of the run, the final status string and the info string *)
Definition c_lp (text : string) (na : Z) (twopl : bool) (o : opts) (snaps : list snap)
           (impl : result (string * string)) : bool :=
  match import_model text na twopl with
  | Crash _ => false
  | Ok M =>
      match run M o (replay snaps), impl with
      | Ok out, Ok (st, info) =>
          all2b (snap_matches M) (out_trace out) snaps &&
          String.eqb (status_string (out_status out)) st && String.eqb (out_info out) info
      | Crash e, Crash f =>
          (* a crash inside a solve: the problems before it must still match *)
          err_eqb e f
      | _, _ => false
      end
  end.
