From MP Require Import Text.Import Spec.Stability Checker.CheckStability.
Open Scope Z_scope.

(* R_checker: Model.check_stability vs the model, on the instance the model importer reads from the file *)
Definition c06_checker (text : string) (na : Z) (m : matching) (impl : result bool) : bool :=
  match import_model text na true with
  | Ok M => result_eqb Bool.eqb (check_stability M (assignment_of M m)) impl
  | Crash _ => false
  end.

(* M_checker: on the property's domain (two-sided, assignment respects upper quotas) the implementation
   returns a boolean equal to "no blocking pair" by the definition *)
Definition c06_spec (text : string) (na : Z) (m : matching) (impl : result bool) : bool :=
  match import_model text na true with
  | Ok M =>
      if wf M && two_sided M && respects_upper_b M m
      then result_eqb Bool.eqb impl (Ok (stable_b M m))
      else true
  | Crash _ => false
  end.

Definition c06_in_domain (text : string) (na : Z) (m : matching) : bool :=
  match import_model text na true with
  | Ok M => wf M && two_sided M && respects_upper_b M m
  | Crash _ => false
  end.
