From MP Require Import Inst.Instance Text.Import.
Open Scope Z_scope.

Definition ids (l : list pair) : list (Z * Z) := map (fun q => (st q, pr q)) l.
Definition ids_eqb := list_eqb (list_eqb (prod_eqb Z.eqb Z.eqb)).

(* R_import: all documented Model attributes and the three derived lists *)
Definition c10_import (text : string) (na : Z) (twopl : bool)
           (impl : result (instance * (list (list (Z * Z)) * list (list (Z * Z)) * list (list (Z * Z))))) : bool :=
  match import_model text na twopl, impl with
  | Ok M, Ok (J, (pl, ll, rk)) =>
      instance_eqb M J && ids_eqb (map ids (project_lists M)) pl &&
      ids_eqb (map ids (lecturer_lists M)) ll && ids_eqb (map ids (rank_lists M)) rk
  | Crash e, Crash f => err_eqb e f
  | _, _ => false
  end.

(* well-formedness of what was imported (used by monitors and non-vacuity statistics) *)
Definition c10_wf (text : string) (na : Z) (twopl : bool) : bool :=
  match import_model text na twopl with Ok M => wf M | Crash _ => false end.

(* M_import: the implementation's reading of a file written from abstract file A (with any blanks/tabs between
   tokens) is the instance A denotes (Text/Render.v), whenever A is a well-formed abstract file *)
From MP Require Import Text.Render.
(* ... including the per-project / per-lecturer / per-rank pair lists the solver builds its constraints from:
   they must list exactly the denoted instance's pairs of that project / lecturer / rank, in student order *)
Definition c10_spec (na : Z) (twopl : bool) (A : file_ast)
           (impl : result (instance * (list (list (Z * Z)) * list (list (Z * Z)) * list (list (Z * Z))))) : bool :=
  if wf_ast na twopl A
  then match impl with
       | Ok (J, (pl, ll, rk)) =>
           let M := denote na twopl A in
           instance_eqb M J && ids_eqb (map ids (project_lists M)) pl &&
           ids_eqb (map ids (lecturer_lists M)) ll && ids_eqb (map ids (rank_lists M)) rk
       | Crash _ => false end
  else true.
Definition c10_wf_ast (na : Z) (twopl : bool) (A : file_ast) : bool := wf_ast na twopl A.
