From MP Require Import Gen.Dist.
From Coq Require Import QArith Qabs.
Open Scope Q_scope.

(* Evaluation with normalisation at every step (the unnormalised [dist] blows up under vm_compute);
   Proofs/DistFast.v proves it pointwise Qeq to [dist]. *)
Definition sumQr (l : list Q) : Q := fold_right (fun a b => Qred (a + b)) 0 l.
Definition dist_fast (n : nat) (s : Q) : list Q :=
  let r := map Qred (raws n s) in
  let t := sumQr r in
  map (fun v => Qred (v / t)) r.

Definition tol : Q := 1 # (2 ^ 40).

Fixpoint all2 {A B} (f : A -> B -> bool) (l : list A) (m : list B) : bool :=
  match l, m with
  | [], [] => true
  | a :: l', b :: m' => f a b && all2 f l' m'
  | _, _ => false
  end.

Definition maxQ (l : list Q) : Q := fold_right (fun a b => if Qle_bool a b then b else a) 0 l.

(* |x - m| <= 2^-40 * scale.  The scale is the largest weight: the float code adds numbers of magnitude 1
   before normalising, so its absolute rounding error is relative to the largest term, not to each term
   (for s << 1 the small weights are computed by cancellation). *)
Definition closeQ (scale x m : Q) : bool := Qle_bool (Qabs (x - m)) (tol * scale).

(* R_dist: implementation doubles (as exact rationals) against the exact model *)
Definition c17_dist (n : nat) (s : Q) (impl : list Q) : bool :=
  let m := dist_fast n s in
  all2 (closeQ (maxQ m)) impl m.

(* M_laws: the stated laws on the implementation's own output, within the same tolerance *)
Fixpoint steps (l : list Q) : list Q :=
  match l with
  | a :: (b :: _) as t => (b - a) :: steps t
  | _ => []
  end.

Definition c17_laws (n : nat) (s : Q) (impl : list Q) : bool :=
  let sc := maxQ impl in
  Nat.eqb (length impl) n &&
  forallb (fun w => negb (Qle_bool w 0)) impl &&
  closeQ 1 (sumQr impl) 1 &&
  match impl with
  | [] => false
  | first :: _ =>
      let last := List.last impl 0 in
      (if Nat.leb 2 n then closeQ sc last (s * first) else closeQ 1 first 1) &&
      match steps impl with
      | [] => true
      | d :: ds => forallb (fun e => closeQ sc e d) ds
      end
  end.

(* M_weights: the weights handed to the RNG are the distribution, unchanged *)
Definition c17_same (a b : list Q) : bool := all2 Qeq_bool a b.
