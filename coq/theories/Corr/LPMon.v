(* Property monitors on the implementation's final output, judged by the specifications. *)
From MP Require Import Text.Import LP.Run Spec.Optimum.
Open Scope Z_scope.

(* documented defaults of the optional arguments *)
Definition criterion_of (M : instance) (c : crit * list Z) : criterion :=
  match fst c with
  | MaxSize => CMaxSize
  | MinSize => CMinSize
  | Generous => CGenerous (arg (snd c) 0 1)
  | Greedy => CGreedy (arg (snd c) 0 (max_rank M))
  | MinCost => CMinCost (arg (snd c) 0 1) (arg (snd c) 1 0)
  | MinSqCost => CMinSqCost (arg (snd c) 0 1) (arg (snd c) 1 0)
  | LoadMaxBal => CLmb
  | LoadSumBal => CLsb
  | MinCostLsb => CMinCostLsb (arg (snd c) 0 1) (arg (snd c) 1 1)
  end.

Definition in_scope (M : instance) (o : opts) : bool := wf M && admissible M o.

(* C01: an Optimal run's printed matching is valid *)
Definition mon_valid (text : string) (na : Z) (twopl : bool) (o : opts) (m : matching) : bool :=
  match import_model text na twopl with
  | Ok M => negb (in_scope M o) || valid_b (o_pc o) M m
  | Crash _ => false
  end.

(* C02: Optimal iff some matching satisfies the requested constraints, Infeasible otherwise *)
Definition mon_status (text : string) (na : Z) (twopl : bool) (o : opts) (st : string) : bool :=
  match import_model text na twopl with
  | Ok M =>
      negb (in_scope M o) ||
      (match feasible_set (o_pc o) (o_stab o) M with
       | [] => String.eqb st "Infeasible"
       | _ => String.eqb st "Optimal"
       end)
  | Crash _ => false
  end.

(* C03/C04: the printed matching is lexicographically optimal for the criteria in list order *)
Definition mon_lex (text : string) (na : Z) (twopl : bool) (o : opts) (m : matching) : bool :=
  match import_model text na twopl with
  | Ok M => negb (in_scope M o) ||
            lex_optimal (o_pc o) (o_stab o) M (map (criterion_of M) (o_crits o)) m
  | Crash _ => false
  end.

(* C05: with -stab the printed matching has no blocking pair *)
Definition mon_stable (text : string) (na : Z) (twopl : bool) (o : opts) (m : matching) : bool :=
  match import_model text na twopl with
  | Ok M => negb (in_scope M o) || negb (o_stab o) || stable_b M m
  | Crash _ => false
  end.

Definition mon_in_scope (text : string) (na : Z) (twopl : bool) (o : opts) : bool :=
  match import_model text na twopl with Ok M => in_scope M o | Crash _ => false end.
