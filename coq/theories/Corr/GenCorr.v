From MP Require Import Gen.Quotas Gen.Files Gen.Args Gen.ArgsBridge Text.Import Spec.Matching.
From Coq Require Export QArith.
Local Open Scope string_scope.
Local Open Scope list_scope.
Open Scope Z_scope.

(* ---- C15 -------------------------------------------------------------------- *)
(* observed: 0 = accepted (instances written), 2 = SystemExit(2), 1 = any other exception *)
Definition outcome_code (o : outcome) : Z :=
  match o with Accept _ => 0 | Reject => 2 | Fail _ => 1 end.

Definition c15_decide (a : namespace) (impl_code : Z) : bool := outcome_code (decide a) =? impl_code.

(* documented rule: accepted and generated without error, or rejected with a usage error and nothing written *)
Definition c15_spec (a : namespace) (impl_code : Z) (dir_created : bool) : bool :=
  if documented_ok a then (impl_code =? 0) && dir_created
  else (impl_code =? 2) && negb dir_created.

(* ---- C08 / C12 / C09 -------------------------------------------------------- *)

Definition zll_eqb := list_eqb (list_eqb Z.eqb).

Definition r_quota (n q : Z) (impl : result (list Z)) : bool :=
  result_eqb (list_eqb Z.eqb) (create_quotas n q) impl.
(* M_quota: the property's own words judged on what the implementation returned: n shares summing to the requested
   total, each the floor quotient or one more, larger shares first *)
Fixpoint nonincreasing (l : list Z) : bool :=
  match l with a :: ((b :: _) as t) => (b <=? a) && nonincreasing t | _ => true end.
Definition m_quota (n q : Z) (impl : result (list Z)) : bool :=
  if (0 <? n) && (0 <=? q) then
    match impl with
    | Ok l => (Z.of_nat (length l) =? n) && (sumZ l =? q) &&
              forallb (fun x => (x =? q / n) || (x =? q / n + 1)) l && nonincreasing l
    | Crash _ => false
    end
  else true.
Definition r_projlec (n2 n3 : Z) (impl : result (list Z)) : bool :=
  result_eqb (list_eqb Z.eqb) (create_project_lecturers n2 n3) impl.
Definition r_stlec (prefs : list (list Z)) (plec : list Z) (n3 : Z) (impl : result (list (list Z))) : bool :=
  result_eqb zll_eqb (create_student_lec_lists prefs plec n3) impl.

(* is [b] a permutation of [a] (entries are distinct agent ids or repeated ones alike) *)
Definition perm_b (a b : list Z) : bool :=
  Nat.eqb (length a) (length b) && forallb (fun x => count_occZ a x =? count_occZ b x) (a ++ b).

(* R_invert: the shuffled second-side lists are permutations of the inversion *)
Definition r_invert (first : list (list Z)) (n2 : Z) (impl_shuffled : list (list Z)) : bool :=
  match invert first n2 with
  | Ok inv => Nat.eqb (length inv) (length impl_shuffled) &&
              forallb (fun ab => perm_b (fst ab) (snd ab)) (combine inv impl_shuffled)
  | Crash _ => false
  end.

(* R_genfile: the files written, byte for byte, from the recorded draws; and the second side is a shuffle of
   the inversion the model computes *)
Definition r_genfile (a : gargs) (ds : list draws) (impl : list (string * string)) : bool :=
  match generate a ds with
  | Ok files =>
      list_eqb (fun x y => String.eqb (fst x) (fst y) && String.eqb (snd x) (snd y)) files impl &&
      forallb (fun d =>
        if g_twopl a then
          match second_side_unshuffled a d with
          | Ok inv => Nat.eqb (length inv) (length (d_second d)) &&
                      forallb (fun ab => perm_b (fst ab) (snd ab)) (combine inv (d_second d))
          | Crash _ => false
          end
        else Nat.eqb (length (d_second d)) 0) ds
  | Crash _ => false
  end.

(* RNG requests: list lengths drawn from [pmin, pmax+1), lists are pmin..pmax distinct members of 1..n2 *)
Definition draws_ok (a : gargs) (d : draws) : bool :=
  Nat.eqb (length (d_first d)) (Z.to_nat (g_n1 a)) &&
  forallb (fun l => (g_pmin a <=? zlen l) && (zlen l <=? g_pmax a) && nodupZ l &&
                    forallb (fun x => (1 <=? x) && (x <=? g_n2 a)) l) (d_first d).

(* ---- monitors on the generated text, through the model importer ---------------------- *)

Definition sum_eq (l : list Z) (s : Z) : bool := sumZ l =? s.
Fixpoint non_increasing (l : list Z) : bool :=
  match l with a :: (b :: _) as t => (b <=? a) && non_increasing t | _ => true end.
Definition spread_ok (l : list Z) (s : Z) : bool :=
  sum_eq l s && non_increasing l &&
  match l with [] => true | a :: _ => a - List.last l a <=? 1 end.

Definition second_side_of (M : instance) (k : Z) : list Z :=
  (* students ranked by lecturer k, each once *)
  nodup Z.eq_dec (map st (lecturer_list M k)).

(* C08 file shape + C12 second-side lists, judged on the instance the model importer reads back *)
Definition m_genfile (a : gargs) (text : string) : bool :=
  let na := if g_mp a =? 4 then 3 else 2 in
  match import_model text na (g_twopl a) with
  | Crash _ => false
  | Ok M =>
      wf M && (nS M =? g_n1 a) && (nP M =? g_n2 a) &&
      (if g_mp a =? 4 then nL M =? g_n3 a else nL M =? g_n2 a) &&
      forallb (fun row => (g_pmin a <=? zlen row) && (zlen row <=? g_pmax a)) (pairs M) &&
      spread_ok (p_lq M) (g_lq a) && spread_ok (p_uq M) (g_uq a) &&
      (if g_mp a =? 4
       then spread_ok (l_lq M) (g_llq a) && spread_ok (l_tg M) (g_lt a) && spread_ok (l_uq M) (g_luq a) &&
            non_increasing (map (fun k => countb (fun c => c =? k) (p_lec M)) (lec_ids M)) &&
            (let cnt := map (fun k => countb (fun c => c =? k) (p_lec M)) (lec_ids M) in
             match cnt with [] => true | c :: _ => c - List.last cnt c <=? 1 end)
       else true) &&
      (if g_twopl a then two_sided M else one_sided M)
  end.

(* C12 on the text: every second-side line lists exactly the first-side agents that rank it (2-agent) or rank
   one of its projects (3-agent), each once.  [second] = the second-side lists as parsed by the harness from the
   file's own lines (token level), [M] read by the model importer without -twopl. *)
Definition m_second_side (a : gargs) (text : string) (second : list (list Z)) : bool :=
  let na := if g_mp a =? 4 then 3 else 2 in
  match import_model text na false with
  | Crash _ => false
  | Ok M =>
      Nat.eqb (length second) (Z.to_nat (nL M)) &&
      forallb (fun kl =>
        let want := nodup Z.eq_dec (map st (lecturer_list M (fst kl))) in
        nodupZ (snd kl) && perm_b want (snd kl)) (combine (lec_ids M) second)
  end.

(* RNG requests and tie extremes *)
Definition c08_requests (a : gargs) (randint_args : list (Z * Z)) (ties_p_ok : bool) : bool :=
  forallb (fun r => (fst r =? g_pmin a) && (snd r =? g_pmax a + 1)) randint_args && ties_p_ok.

(* code 0: probability 0 -> no ties; 1: probability 1 -> fully tied; 2: anything else *)
Definition m_ties_extreme (a : gargs) (text : string) (t1code t2code : Z) : bool :=
  let na := if g_mp a =? 4 then 3 else 2 in
  match import_model text na (g_twopl a) with
  | Crash _ => false
  | Ok M =>
      forallb (fun row =>
        if t1code =? 0 then list_eqb Z.eqb (map rs row) (seqZ 1 (length row))
        else if t1code =? 1 then forallb (fun q => rs q =? 1) row
        else true) (pairs M) &&
      (negb (g_twopl a) ||
       forallb (fun k =>
         let lp := lecturer_list M k in
         if t2code =? 1 then forallb (fun q => rl0 q =? 1) lp
         else if t2code =? 0
         then forallb (fun q => forallb (fun q' => (st q =? st q') || negb (rl0 q =? rl0 q')) lp) lp
         else true) (lec_ids M))
  end.


(* the whole generator on the argparse namespace: accepted, and the files are those of generator_run (parser model,
   defaults, and instance writers composed); the gargs the other relations use are the ones derived here *)
Definition r_generator (a : namespace) (t1 t2 skew lt_str : string) (g : gargs) (ds : list draws)
           (impl : list (string * string)) : bool :=
  match decide a with
  | Accept a' => gargs_eqb (gargs_of a' t1 t2 skew lt_str) g
  | _ => false
  end &&
  match generator_run a t1 t2 skew lt_str ds with
  | GFiles files => list_eqb (fun x y => String.eqb (fst x) (fst y) && String.eqb (snd x) (snd y)) files impl
  | _ => false
  end.
