(* Model of Model.check_stability and its four helpers, with python's evaluation order and failure
   points (missing attribute, comparison with None).  No proofs here. *)
From MP Require Export Spec.Stability.
Open Scope Z_scope.

Definition somes {A} (l : list (option A)) : list A :=
  flat_map (fun o => match o with Some x => [x] | None => [] end) l.

(* get_num_assignments_projects / _lecturers : [0]*n then += 1 at the pair's index *)
Definition num_for (sel : pair -> Z) (n : Z) (pa : list (option pair)) : list Z :=
  map (fun j => countb (fun q => sel q =? j) (somes pa)) (seqZ 1 (Z.to_nat n)).

(* get_worst_rank_projects / _lecturers: every assigned pair's rank_lecturer is read
   (AttributeError when the pair has none), the slot keeps the maximum, None when untouched *)
Definition worst_for (sel : pair -> Z) (n : Z) (pa : list (option pair)) : result (list (option Z)) :=
  if existsb (fun q => match rl q with None => true | Some _ => false end) (somes pa)
  then Crash AttributeError
  else Ok (map (fun j => worst_rank (filter (fun q => sel q =? j) (somes pa))) (seqZ 1 (Z.to_nat n))).

Definition nthZ (l : list Z) (i : Z) : result Z := py_nth l (i - 1).
Definition nthO (l : list (option Z)) (i : Z) : result (option Z) := py_nth l (i - 1).

(* pair.rank_lecturer < worst  guarded by  worst is not None  (after the repair of F08);
   a missing rank_lecturer attribute is an AttributeError *)
Definition rank_lt_worst (q : pair) (w : option Z) : result bool :=
  match w with
  | None => Ok false
  | Some b => match rl q with Some a => Ok (a <? b) | None => Crash AttributeError end
  end.

Definition pair_blocks (I : instance) (pnum lnum : list Z) (wp wl : list (option Z))
           (assigned : option pair) (q : pair) : result bool :=
  let bp2 := match assigned with None => true | Some c => rs q <? rs c end in
  do pn <- nthZ pnum (pr q); do pu <- nthZ (p_uq I) (pr q);
  do ln <- nthZ lnum (lec q); do lu <- nthZ (l_uq I) (lec q);
  let p_under := pn <? pu in
  let l_under := ln <? lu in
  let bp3a := p_under && l_under in
  do bp3b <- (if p_under && negb l_under then
                if (match assigned with Some c => lec c =? lec q | None => false end) then Ok true
                else do w <- nthO wl (lec q); rank_lt_worst q w
              else Ok false);
  do bp3c <- (if negb p_under then do w <- nthO wp (pr q); rank_lt_worst q w else Ok false);
  Ok (bp2 && (bp3a || bp3b || bp3c)).

Fixpoint check_row (I : instance) (pnum lnum : list Z) (wp wl : list (option Z))
         (assigned : option pair) (row : list pair) : result bool :=
  match row with
  | [] => Ok true
  | q :: t => do b <- pair_blocks I pnum lnum wp wl assigned q;
              if b then Ok false else check_row I pnum lnum wp wl assigned t
  end.

Fixpoint check_rows (I : instance) (pnum lnum : list Z) (wp wl : list (option Z))
         (rows : list (list pair)) (pa : list (option pair)) : result bool :=
  match rows with
  | [] => Ok true
  | row :: rows' =>
      match pa with
      | [] => Crash IndexError
      | a :: pa' => do ok <- check_row I pnum lnum wp wl a row;
                    if ok then check_rows I pnum lnum wp wl rows' pa' else Ok false
      end
  end.

Definition check_stability (I : instance) (pa : list (option pair)) : result bool :=
  let pnum := num_for pr (nP I) pa in
  let lnum := num_for lec (nL I) pa in
  do wp <- worst_for pr (nP I) pa;
  do wl <- worst_for lec (nL I) pa;
  check_rows I pnum lnum wp wl (pairs I) pa.

(* _get_pair_assignments_with_none for a matching vector: per student the pair held, or None *)
Definition assignment_of (I : instance) (m : matching) : list (option pair) :=
  map (fun ip => match ip with (row, p) => if p =? 0 then None else find_pair row p end) (combine (pairs I) m).
