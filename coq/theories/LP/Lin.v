(* Integer programs as the solver hands them to PuLP: variables by role, linear constraints in the
   canonical form "sum coef*var  rel  rhs", evaluation, feasibility.  No proofs here. *)
From MP Require Export Inst.Instance.
Open Scope Z_scope.

Inductive var :=
| X (s p : Z)          (* Pair.lp_var of student s, project p *)
| Alpha (s p : Z)      (* Pair.alpha_var *)
| Beta (s p : Z)       (* Pair.beta_var *)
| Closure (j : Z)      (* Model.project_closures[j-1] *)
| AbsDiff (k : Z)      (* Model.abs_lec_diff[k-1] *)
| Obj (n : nat).       (* the n-th objective variable created during the run (0-based) *)

Definition var_eqb (a b : var) : bool :=
  match a, b with
  | X s p, X s' p' | Alpha s p, Alpha s' p' | Beta s p, Beta s' p' => (s =? s') && (p =? p')
  | Closure j, Closure j' | AbsDiff j, AbsDiff j' => j =? j'
  | Obj n, Obj n' => Nat.eqb n n'
  | _, _ => false
  end.

Definition lin := list (Z * var).

Inductive rel := LE | GE | EQ.
Definition rel_eqb (a b : rel) : bool :=
  match a, b with LE, LE | GE, GE | EQ, EQ => true | _, _ => false end.

Record constr := mkC { c_lhs : lin; c_rel : rel; c_rhs : Z }.

Definition assignment := var -> Z.

Definition eval (v : assignment) (l : lin) : Z := sumZ (map (fun cx => fst cx * v (snd cx)) l).

Definition sat (v : assignment) (c : constr) : bool :=
  match c_rel c with
  | LE => eval v (c_lhs c) <=? c_rhs c
  | GE => c_rhs c <=? eval v (c_lhs c)
  | EQ => eval v (c_lhs c) =? c_rhs c
  end.

(* ---- canonical comparison (used by the correspondence only) --------------- *)

(* coefficient of x in l (terms merged) *)
Definition coef (l : lin) (x : var) : Z := sumZ (map fst (filter (fun cx => var_eqb (snd cx) x) l)).

Definition lin_vars (l : lin) : list var := map snd l.

Definition lin_eqb (a b : lin) : bool :=
  forallb (fun x => coef a x =? coef b x) (lin_vars a ++ lin_vars b).

Definition constr_eqb (a b : constr) : bool :=
  rel_eqb (c_rel a) (c_rel b) && (c_rhs a =? c_rhs b) && lin_eqb (c_lhs a) (c_lhs b).

(* multiset equality of constraint lists *)
Fixpoint remove_first (c : constr) (l : list constr) : option (list constr) :=
  match l with
  | [] => None
  | d :: t => if constr_eqb c d then Some t
              else match remove_first c t with Some t' => Some (d :: t') | None => None end
  end.
Fixpoint constrs_eqb (a b : list constr) : bool :=
  match a with
  | [] => match b with [] => true | _ => false end
  | c :: t => match remove_first c b with Some b' => constrs_eqb t b' | None => false end
  end.

(* value lookup in a recorded answer *)
Fixpoint lookup (vals : list (var * Z)) (x : var) : option Z :=
  match vals with
  | [] => None
  | (y, z) :: t => if var_eqb y x then Some z else lookup t x
  end.
