(* Model of LP_Solver.add_constraints and of the nine optimisation_* methods: which constraints,
   which objective variable (bounds, name), which sense.  No proofs here. *)
From MP Require Export LP.Lin Spec.Matching.
Local Open Scope string_scope.
Local Open Scope list_scope.
Open Scope Z_scope.

Definition xs (l : list pair) : lin := map (fun q => (1, X (st q) (pr q))) l.

(* ---- upper_lower_constraints -------------------------------------------- *)

Definition student_constrs (I : instance) : list constr :=
  map (fun row => mkC (xs row) LE 1) (pairs I).

Definition project_constrs (pc : bool) (I : instance) : list constr :=
  flat_map (fun j =>
    let pl := xs (project_list I j) in
    let lq := nth1 (p_lq I) j 0 in
    let uq := nth1 (p_uq I) j 0 in
    if pc then [mkC (pl ++ [(lq, Closure j)]) GE lq; mkC (pl ++ [(uq, Closure j)]) LE uq]
    else [mkC pl GE lq; mkC pl LE uq]) (proj_ids I).

Definition lecturer_constrs (I : instance) : list constr :=
  flat_map (fun k =>
    let ll := xs (lecturer_list I k) in
    [mkC ll GE (nth1 (l_lq I) k 0); mkC ll LE (nth1 (l_uq I) k 0)]) (lec_ids I).

Definition upper_lower (pc : bool) (I : instance) : list constr :=
  student_constrs I ++ project_constrs pc I ++ lecturer_constrs I.

(* ---- stability_constraints ---------------------------------------------- *)

(* the while loop: current_rank starts at 1; subtract row[index] while current_rank <= aim_rank *)
Fixpoint prefix_le (aim : Z) (row : list pair) : list pair :=
  match row with
  | [] => []
  | q :: t => if rs q <=? aim then q :: prefix_le aim t else []
  end.
Definition wants_prefix (aim : Z) (row : list pair) : list pair :=
  match row with
  | [] => []
  | q :: t => if 1 <=? aim then q :: prefix_le aim t else []
  end.

(* rank_lecturer is read on every pair of the lecturer's list: AttributeError if absent *)
Definition rl_get (q : pair) : result Z := match rl q with Some r => Ok r | None => Crash AttributeError end.

Definition better_equal (I : instance) (q : pair) : result (list pair * list pair) :=
  do aim <- rl_get q;
  let ll := lecturer_list I (lec q) in
  do rks <- mapM rl_get ll;
  let lk := filter (fun lp => (rl0 lp <=? aim) && negb (st lp =? st q)) ll in
  Ok (lk, filter (fun lp => pr lp =? pr q) lk).

Definition stab_pair (I : instance) (row : list pair) (q : pair) : result (list constr) :=
  do '(lk, pj) <- better_equal I q;
  let luq := nth1 (l_uq I) (lec q) 0 in
  let puq := nth1 (p_uq I) (pr q) 0 in
  Ok [ mkC ((- luq, Alpha (st q) (pr q)) :: xs lk) GE 0;
       mkC ((- puq, Beta (st q) (pr q)) :: xs pj) GE 0;
       mkC (map (fun w => (-1, X (st w) (pr w))) (wants_prefix (rs q) row)
              ++ [(-1, Alpha (st q) (pr q)); (-1, Beta (st q) (pr q))]) LE (-1) ].

Definition stability_constrs (I : instance) : result (list constr) :=
  do per_row <- mapM (fun row => do cs <- mapM (stab_pair I row) row; Ok (concat cs)) (pairs I);
  Ok (concat per_row).

(* ---- loadbalancing_constraints ------------------------------------------ *)

Definition loadbal_constrs (I : instance) : list constr :=
  flat_map (fun k =>
    let ll := lecturer_list I k in
    let tg := nth1 (l_tg I) k 0 in
    [ mkC ((1, AbsDiff k) :: map (fun q => (-1, X (st q) (pr q))) ll) GE (- tg);
      mkC ((1, AbsDiff k) :: xs ll) GE tg ]) (lec_ids I).

(* ---- options -------------------------------------------------------------- *)

Inductive crit := MaxSize | MinSize | Generous | Greedy | MinCost | MinSqCost | LoadMaxBal | LoadSumBal | MinCostLsb.

Definition crit_eqb (a b : crit) : bool :=
  match a, b with
  | MaxSize, MaxSize | MinSize, MinSize | Generous, Generous | Greedy, Greedy | MinCost, MinCost
  | MinSqCost, MinSqCost | LoadMaxBal, LoadMaxBal | LoadSumBal, LoadSumBal | MinCostLsb, MinCostLsb => true
  | _, _ => false
  end.

Record opts := mkOpts { o_pc : bool; o_stab : bool; o_crits : list (crit * list Z) }.

Definition needs_loadbal (o : opts) : bool :=
  existsb (fun c => match fst c with LoadMaxBal | LoadSumBal | MinCostLsb => true | _ => false end) (o_crits o).

Definition base_constrs (I : instance) (o : opts) : result (list constr) :=
  do sc <- (if o_stab o then stability_constrs I else Ok []);
  Ok (upper_lower (o_pc o) I ++ sc ++ (if needs_loadbal o then loadbal_constrs I else [])).

Definition base_info (o : opts) : string :=
  "- valid matching constraints added" +++ String nl "" +++
  (if o_pc o then "- project closures allowed" +++ String nl "" else "") +++
  (if o_stab o then "- stability constraints added" +++ String nl "" else "") +++
  (if needs_loadbal o then "- load-balancing constraints added" +++ String nl "" else "").

(* ---- primitive optimisation stages ------------------------------------------ *)

Inductive prim :=
| PSize (maximise : bool)
| PRank (greedy : bool) (r : Z)
| PCost (y z : Z)
| PSqCost (y z : Z)
| PLmb
| PLsb
| PCostLsb (y z : Z).

Definition arg (l : list Z) (i : nat) (d : Z) : Z := nth i l d.

(* generous: for r in range(max_rank, max(0, c - 1), -1) ; greedy: for r in range(1, min(c + 1, max_rank + 1)) *)
Definition expand (I : instance) (c : crit * list Z) : list prim :=
  let mr := max_rank I in
  match fst c with
  | MaxSize => [PSize true]
  | MinSize => [PSize false]
  | Generous =>
      let cut := arg (snd c) 0 1 in
      let lo := Z.max 0 (cut - 1) in
      map (fun r => PRank false r) (rev (seqZ (lo + 1) (Z.to_nat (mr - lo))))
  | Greedy =>
      let cut := arg (snd c) 0 mr in
      map (fun r => PRank true r) (seqZ 1 (Z.to_nat (Z.min (cut + 1) (mr + 1) - 1)))
  | MinCost => [PCost (arg (snd c) 0 1) (arg (snd c) 1 0)]
  | MinSqCost => [PSqCost (arg (snd c) 0 1) (arg (snd c) 1 0)]
  | LoadMaxBal => [PLmb]
  | LoadSumBal => [PLsb]
  | MinCostLsb => [PCostLsb (arg (snd c) 0 1) (arg (snd c) 1 1)]
  end.

Definition crit_info (I : instance) (c : crit * list Z) : string :=
  (match fst c with
   | MaxSize => "- optimisation: maximising size"
   | MinSize => "- optimisation: minimising size"
   | Generous => "- optimisation: generous up to position " +++ str_of_Z (arg (snd c) 0 1) +++ " inclusive"
   | Greedy => "- optimisation: greedy up to position " +++ str_of_Z (arg (snd c) 0 (max_rank I)) +++ " inclusive"
   | MinCost => "- optimisation: minimising sum of ranks"
   | MinSqCost => "- optimisation: minimising sum of square of ranks"
   | LoadMaxBal => "- optimisation: load max balanced"
   | LoadSumBal => "- optimisation: load sum balanced"
   | MinCostLsb => "- optimisation: minimising costs with lecturer load balancing"
   end) +++ String nl "".

Definition is_max (p : prim) : bool :=
  match p with PSize b => b | PRank g _ => g | _ => false end.

Definition prim_name (p : prim) : string :=
  match p with
  | PSize true => "obj_maxsize"
  | PSize false => "obj_minsize"
  | PRank false r => "obj_generous_rank_" +++ str_of_Z r
  | PRank true r => "obj_greedy_rank_" +++ str_of_Z r
  | PCost _ _ => "obj_mincost"
  | PSqCost _ _ => "obj_minsqcost"
  | PLmb => "lec_max_abs_diff"
  | PLsb => "lec_sum_abs_diff"
  | PCostLsb _ _ => "obj_mincostlsb"
  end.

Definition max_lec_uq (I : instance) : Z := fold_right Z.max 0 (l_uq I).

(* upper bound of the objective variable (lower bound is always 0) *)
Definition prim_ub (I : instance) (p : prim) : Z :=
  match p with
  | PSize _ | PRank _ _ => nS I
  | PCost y z => nS I * nP I * y + nS I * nS I * z
  | PSqCost y z => (nS I * max_rank I) * (nS I * max_rank I) * y + (nS I * nS I) * (nS I * nS I) * z
  | PLmb => max_lec_uq I
  | PLsb => sumZ (l_uq I)
  | PCostLsb y z => nS I * nP I * y + sumZ (l_uq I) * z
  end.

Definition cost_coef (y z : Z) (q : pair) : Z :=
  rs q * y + match rl q with Some r => r * z | None => 0 end.
Definition sqcost_coef (y z : Z) (q : pair) : Z :=
  rs q * rs q * y + match rl q with Some r => r * r * z | None => 0 end.

(* the constraints tying objective variable [Obj n] to the measured quantity *)
Definition prim_tie (I : instance) (n : nat) (p : prim) : list constr :=
  match p with
  | PSize _ => [mkC (xs (all_pairs I) ++ [(-1, Obj n)]) EQ 0]
  | PRank _ r => [mkC (xs (rank_list I r) ++ [(-1, Obj n)]) EQ 0]
  | PCost y z => [mkC (map (fun q => (cost_coef y z q, X (st q) (pr q))) (all_pairs I) ++ [(-1, Obj n)]) EQ 0]
  | PSqCost y z => [mkC (map (fun q => (sqcost_coef y z q, X (st q) (pr q))) (all_pairs I) ++ [(-1, Obj n)]) EQ 0]
  | PLmb => map (fun k => mkC [(1, Obj n); (-1, AbsDiff k)] GE 0) (lec_ids I)
  | PLsb => [mkC ((1, Obj n) :: map (fun k => (-1, AbsDiff k)) (lec_ids I)) GE 0]
  | PCostLsb y z =>
      [mkC (map (fun q => (rs q * y, X (st q) (pr q))) (all_pairs I)
              ++ map (fun k => (z, AbsDiff k)) (lec_ids I) ++ [(-1, Obj n)]) EQ 0]
  end.

(* the objective handed to PuLP (the problem is always LpMaximize): obj, or -1 * obj *)
Definition prim_objective (n : nat) (p : prim) : lin :=
  if is_max p then [(1, Obj n)] else [(-1, Obj n)].

(* the constraint added after the solve *)
Definition prim_freeze (n : nat) (p : prim) (value : Z) : constr :=
  if is_max p then mkC [(1, Obj n)] GE value else mkC [(1, Obj n)] LE value.

(* admissible option sets (C02's quantifier; any generous / greedy cut-off is allowed: a cut-off that leaves no
   rank to optimise simply contributes no stage) *)
Fixpoint distinct_crits (cs : list (crit * list Z)) : bool :=
  match cs with
  | [] => true
  | c :: t => negb (existsb (fun d => crit_eqb (fst d) (fst c)) t) && distinct_crits t
  end.

Definition admissible (I : instance) (o : opts) : bool :=
  (negb (o_stab o) || two_sided I) &&
  distinct_crits (o_crits o) &&          (* each criterion is requested at most once (one flag each) *)
  forallb (fun c =>
    match fst c with
    | MinCost | MinSqCost | MinCostLsb => forallb (fun a => 0 <=? a) (snd c)
    | _ => true
    end) (o_crits o).
