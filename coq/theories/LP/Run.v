(* Model of LP_Solver.run / run_optimisations / perform_optimisation with the MILP back end as an
   oracle argument (never an axiom).  No proofs here. *)
From MP Require Export LP.Build.
Local Open Scope string_scope.
Local Open Scope list_scope.
Open Scope Z_scope.

Inductive status := Optimal | Infeasible | Unbounded | Undefined | NotSolved.

Definition status_eqb (a b : status) : bool :=
  match a, b with
  | Optimal, Optimal | Infeasible, Infeasible | Unbounded, Unbounded | Undefined, Undefined
  | NotSolved, NotSolved => true
  | _, _ => false
  end.

Definition status_string (s : status) : string :=
  match s with
  | Optimal => "Optimal" | Infeasible => "Infeasible" | Unbounded => "Unbounded"
  | Undefined => "Undefined" | NotSolved => "Not Solved"
  end.

(* what comes back from prob.solve: the status and the varValue of the variables of the problem *)
Record answer := mkAns { a_status : status; a_vals : list (var * Z) }.

(* objective variables created so far: upper bound and name, in creation order *)
Record objinfo := mkObj { oi_ub : Z; oi_name : string }.

Record problem := mkProb {
  pb_cs : list constr;
  pb_objective : lin;
  pb_objs : list objinfo }.

(* the k-th solve of the run receives problem P *)
Definition oracle := nat -> problem -> answer.

Record rstate := mkRS {
  r_cs : list constr;
  r_objs : list objinfo;
  r_info : string;
  r_status : status;           (* LpProblem.status, 'Not Solved' before the first solve *)
  r_vals : list (var * Z);
  r_trace : list problem;      (* problems handed to the solver, oldest first *)
  r_nsolves : nat }.

Fixpoint has_dup (l : list string) : bool :=
  match l with
  | [] => false
  | x :: t => existsb (String.eqb x) t || has_dup t
  end.

(* PuLP refuses a problem in which two variables share a name *)
Definition names_ok (objs : list objinfo) : bool := negb (has_dup (map oi_name objs)).

(* perform_optimisation for one primitive stage *)
Definition perform (I : instance) (solve : oracle) (s : rstate) (p : prim) : result rstate :=
  let n := length (r_objs s) in
  let objs := r_objs s ++ [mkObj (prim_ub I p) (prim_name p)] in
  let cs := r_cs s ++ prim_tie I n p in
  let P := mkProb cs (prim_objective n p) objs in
  if negb (names_ok objs) then Crash PulpSolverError
  else
    let a := solve (r_nsolves s) P in
    (* objective_function.varValue; PuLP reads "obj >= None" as "obj >= 0" *)
    let v := match lookup (a_vals a) (Obj n) with Some v => v | None => 0 end in
    Ok (mkRS (cs ++ [prim_freeze n p v]) objs (r_info s) (a_status a) (a_vals a)
             (r_trace s ++ [P]) (S (r_nsolves s))).

(* the per-rank loops of generous/greedy stop at the first non-optimal solve (repair of F07) *)
Fixpoint perform_all (I : instance) (solve : oracle) (s : rstate) (ps : list prim) : result rstate :=
  match ps with
  | [] => Ok s
  | p :: t =>
      do s' <- perform I solve s p;
      if status_eqb (r_status s') Optimal then perform_all I solve s' t else Ok s'
  end.

Definition add_info (s : rstate) (line : string) : rstate :=
  mkRS (r_cs s) (r_objs s) (r_info s +++ line) (r_status s) (r_vals s) (r_trace s) (r_nsolves s).

(* run_optimisations: criteria in list order; exit after the first criterion that solved something and left a
   non-optimal status (a criterion without any rank to optimise solves nothing and cannot fail: repair of F14) *)
Fixpoint run_crits (I : instance) (solve : oracle) (s : rstate) (cs : list (crit * list Z)) : result rstate :=
  match cs with
  | [] => Ok s
  | c :: t =>
      do s' <- perform_all I solve (add_info s (crit_info I c)) (expand I c);
      if status_eqb (r_status s') Optimal || Nat.eqb (r_nsolves s') (r_nsolves s)
      then run_crits I solve s' t else Ok s'
  end.

Record run_out := mkOut {
  out_trace : list problem; out_status : status; out_vals : list (var * Z); out_info : string }.

Definition run (I : instance) (o : opts) (solve : oracle) : result run_out :=
  do base <- base_constrs I o;
  let s0 := mkRS base [] (base_info o) NotSolved [] [] 0 in
  do s1 <- run_crits I solve s0 (o_crits o);
  (* when no solve has happened (no criterion, or criteria without any rank to optimise): plain solve
     of the constraints with the arbitrary objective 0 (repair of F06) *)
  if Nat.eqb (r_nsolves s1) 0 then
    let P := mkProb (r_cs s1) [] (r_objs s1) in
    let a := solve 0%nat P in
    Ok (mkOut [P] (a_status a) (a_vals a) (r_info s1))
  else Ok (mkOut (r_trace s1) (r_status s1) (r_vals s1) (r_info s1)).

(* Model._get_pair_assignments: pairs whose variable has a truthy value *)
Definition assigned (I : instance) (vals : list (var * Z)) : list pair :=
  filter (fun q => match lookup vals (X (st q) (pr q)) with Some z => negb (z =? 0) | None => false end)
         (all_pairs I).
