(* Definitions shared by the optimality proofs: the measure each primitive stage optimises, the
   canonical value assignment of a matching, and lexicographic optimality as a proposition.
   No proofs here. *)
From MP Require Export LP.Oracle Spec.Optimum.
Local Open Scope list_scope.
Open Scope Z_scope.

(* the documented quantity a primitive stage measures on a matching *)
Definition prim_meas (M : instance) (p : prim) (m : matching) : Z :=
  match p with
  | PSize _ => size m
  | PRank _ r => count_at_rank M m r
  | PCost y z => y * cost_s M m + z * cost_l M m
  | PSqCost y z => y * costsq_s M m + z * costsq_l M m
  | PLmb => max_abs_diff M m
  | PLsb => sum_abs_diff M m
  | PCostLsb y z => y * cost_s M m + z * sum_abs_diff M m
  end.

Definition prim_objective_spec (M : instance) (p : prim) : objective :=
  mkObjective (is_max p) (prim_meas M p).

(* the matchings the requested constraints allow *)
Definition Feas (pc stab : bool) (M : instance) (m : matching) : Prop :=
  valid_b pc M m = true /\ (stab = true -> stable_b M m = true).

(* m is optimal for the first objective within F, for the second within the first's optima, ... *)
Fixpoint LexOpt (F : matching -> Prop) (obs : list objective) (m : matching) : Prop :=
  match obs with
  | [] => F m
  | ob :: rest =>
      F m /\ (forall m', F m' -> as_good ob (ob_meas ob m) (ob_meas ob m') = true) /\
      LexOpt (fun m' => F m' /\ ob_meas ob m' = ob_meas ob m) rest m
  end.

(* all primitive stages of an option set, in execution order *)
Definition all_prims (M : instance) (o : opts) : list prim := flat_map (expand M) (o_crits o).

(* ---- canonical value assignment of a matching ------------------------------------------ *)

Definition x_val (m : matching) (s p : Z) : Z := if (negb (p =? 0)) && (nth1 m s 0 =? p) then 1 else 0.

(* alpha / beta of the stability encoding, chosen as in the completeness argument:
   beta = 1 when the project is full of other students the lecturer likes at least as much,
   alpha = 1 when the lecturer is full of such students (and does not supervise s) *)
Definition lec_of_pair (M : instance) (s p : Z) : option pair :=
  match nth_error (pairs M) (Z.to_nat (s - 1)) with
  | Some row => find_pair row p
  | None => None
  end.

Definition beta_val (M : instance) (m : matching) (s p : Z) : Z :=
  match lec_of_pair M s p with
  | Some q =>
      let others := filter (fun a => negb (st a =? s) && (rl0 a <=? rl0 q)) (M_of_proj M m p) in
      if nth1 (p_uq M) p 0 <=? zlen others then 1 else 0
  | None => 0
  end.

Definition alpha_val (M : instance) (m : matching) (s p : Z) : Z :=
  match lec_of_pair M s p with
  | Some q =>
      let others := filter (fun a => negb (st a =? s) && (rl0 a <=? rl0 q)) (M_of_lec M m (lec q)) in
      if nth1 (l_uq M) (lec q) 0 <=? zlen others then 1 else 0
  | None => 0
  end.

(* [prims]: the primitive stages performed so far, in order; objective variable n carries the measure of
   stage n *)
Definition canon (M : instance) (prims : list prim) (m : matching) : assignment :=
  fun x =>
    match x with
    | X s p => x_val m s p
    | Alpha s p => alpha_val M m s p
    | Beta s p => beta_val M m s p
    | Closure j => if proj_load M m j =? 0 then 1 else 0
    | AbsDiff k => lec_abs_diff M m k
    | Obj n => match nth_error prims n with Some p => prim_meas M p m | None => 0 end
    end.
