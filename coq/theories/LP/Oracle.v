(* The contract of the MILP back end (a defined predicate on the oracle argument, never an axiom),
   feasibility of a problem, and the matching a value assignment denotes.  No proofs here. *)
From MP Require Export LP.Run.
Local Open Scope list_scope.
Open Scope Z_scope.

(* bounds of every variable of a run: binaries, |load - target| variables, objective variables *)
Definition model_bounds (M : instance) (objs : list objinfo) (x : var) : Z * Z :=
  match x with
  | X _ _ | Alpha _ _ | Beta _ _ | Closure _ => (0, 1)
  | AbsDiff k => (0, nth1 (l_uq M) k 0)
  | Obj n => (0, match nth_error objs n with Some oi => oi_ub oi | None => -1 end)
  end.

(* the variables that can be part of a problem of this run *)
Definition var_exists (M : instance) (objs : list objinfo) (x : var) : bool :=
  match x with
  | X _ _ | Alpha _ _ | Beta _ _ | Closure _ => true
  | AbsDiff k => (1 <=? k) && (k <=? nL M)
  | Obj n => Nat.ltb n (length objs)
  end.

Definition in_bounds (M : instance) (objs : list objinfo) (v : assignment) : Prop :=
  forall x, var_exists M objs x = true ->
            fst (model_bounds M objs x) <= v x <= snd (model_bounds M objs x).

Definition all_sat (v : assignment) (cs : list constr) : Prop := forallb (sat v) cs = true.

(* integrality is built in: assignments are Z-valued *)
Definition feasible (M : instance) (P : problem) (v : assignment) : Prop :=
  all_sat v (pb_cs P) /\ in_bounds M (pb_objs P) v.

Definition objective_value (P : problem) (v : assignment) : Z := eval v (pb_objective P).

(* varValue of a variable that is not part of the problem is None; the code treats it as falsy / 0 *)
Definition val_fun (vals : list (var * Z)) : assignment :=
  fun x => match lookup vals x with Some z => z | None => 0 end.

(* what a correct MILP solver guarantees, for every solve of the run: an Optimal answer is a feasible
   point no feasible point beats (the problem is always a maximisation); Infeasible is reported exactly
   when no feasible point exists; nothing else is reported (every variable is bounded) *)
Definition milp_ok (M : instance) (solve : oracle) : Prop :=
  forall k P,
    let a := solve k P in
    (a_status a = Optimal ->
       feasible M P (val_fun (a_vals a)) /\
       forall v', feasible M P v' -> objective_value P v' <= objective_value P (val_fun (a_vals a))) /\
    (a_status a = Infeasible -> forall v', ~ feasible M P v') /\
    ((exists v', feasible M P v') -> a_status a = Optimal) /\
    (a_status a = Optimal \/ a_status a = Infeasible).

(* the printed matching line of a value assignment: per student the project of the last pair of the row
   whose variable is non-zero (matching[student_index] is overwritten in row order), 0 if none *)
Definition row_choice (v : assignment) (row : list pair) : Z :=
  match rev (filter (fun q => negb (v (X (st q) (pr q)) =? 0)) row) with
  | [] => 0
  | q :: _ => pr q
  end.
Definition matching_of (M : instance) (v : assignment) : matching := map (row_choice v) (pairs M).

(* 0/1 values of the decision and closure variables *)
Definition binary (v : assignment) : Prop :=
  (forall s p, v (X s p) = 0 \/ v (X s p) = 1) /\ (forall j, v (Closure j) = 0 \/ v (Closure j) = 1).
