(* Model of the two generators' create_instance / create_instance_info / generate_instances as string
   functions of the arguments and of the recorded random draws.  No proofs here. *)
From MP Require Export Gen.Quotas Text.Ties.
Local Open Scope string_scope.
Local Open Scope list_scope.
Open Scope Z_scope.

Definition NLs : string := String nl "".

(* the arguments after set_defaults; float-valued ones are carried as python prints them *)
Record gargs := mkGargs {
  g_mp : Z;                (* 1 ha, 2 sm, 3 hr, 4 spa *)
  g_numinst : Z;
  g_twopl : bool;
  g_n1 : Z; g_n2 : Z; g_n3 : Z;
  g_pmin : Z; g_pmax : Z;
  g_t1 : string; g_t2 : string; g_skew : string;
  g_lq : Z; g_uq : Z;
  g_llq : Z; g_lt : Z; g_lt_str : string; g_luq : Z }.

(* the random draws of one instance, as recorded from numpy / random *)
Record draws := mkDraws {
  d_first : list (list Z);          (* np.random.choice(..., replace=False) results *)
  d_ties1 : list (list bool);       (* tie indicators of the first side *)
  d_second : list (list Z);         (* second-side lists after random.shuffle *)
  d_ties2 : list (list bool) }.

Definition pref_string (l : list Z) (ties : list bool) : result string :=
  do ss <- write_strings l ties; Ok (join " " ss).

Definition sZ := str_of_Z.

Definition info_common (a : gargs) : string :=
  "min_pref_list_length: " +++ sZ (g_pmin a) +++ NLs +++
  "max_pref_list_length: " +++ sZ (g_pmax a) +++ NLs +++
  "ties_probability_1: " +++ g_t1 a +++ NLs +++
  "ties_probability_2: " +++ g_t2 a +++ NLs +++
  "sum_agent2_lower_quotas: " +++ sZ (g_lq a) +++ NLs +++
  "sum_agent2_upper_quotas: " +++ sZ (g_uq a) +++ NLs +++
  "skew_for_agent_1: " +++ g_skew a +++ NLs.

Definition info_hr (a : gargs) : string :=
  "instance generation parameters" +++ NLs +++
  "number_of_agents_type_1: " +++ sZ (g_n1 a) +++ NLs +++
  "number_of_agents_type_2: " +++ sZ (g_n2 a) +++ NLs +++ info_common a.

Definition info_spa (a : gargs) : string :=
  "instance generation parameters" +++ NLs +++
  "number_of_agents_type_1: " +++ sZ (g_n1 a) +++ NLs +++
  "number_of_agents_type_2: " +++ sZ (g_n2 a) +++ NLs +++
  "number_of_agents_type_3: " +++ sZ (g_n3 a) +++ NLs +++ info_common a +++
  "sum_agent3_lower_quotas: " +++ sZ (g_llq a) +++ NLs +++
  "sum_agent3_targets: " +++ g_lt_str a +++ NLs +++
  "sum_agent3_upper_quotas: " +++ sZ (g_luq a) +++ NLs.

(* numbered first-side lines; pref_lists[x] / ties[x] are python list accesses *)
Fixpoint first_lines (i : Z) (ls : list (list Z)) (ts : list (list bool)) (n : nat) : result string :=
  match n with
  | O => Ok ""
  | S n' =>
      match ls, ts with
      | l :: ls', t :: ts' =>
          do p <- pref_string l t;
          do rest <- first_lines (i + 1) ls' ts' n';
          Ok (sZ i +++ ": " +++ p +++ NLs +++ rest)
      | _, _ => Crash IndexError
      end
  end.

(* Generator_ha_sm_hr.create_instance (after the repair of F10: the list tokens are reset per line) *)
Fixpoint hosp_lines (i : Z) (two : bool) (ls : list (list Z)) (ts : list (list bool)) (lq uq : list Z) (n : nat)
  : result string :=
  match n with
  | O => Ok ""
  | S n' =>
      do p <- (if two then match ls, ts with
                           | l :: _, t :: _ => pref_string l t
                           | _, _ => Crash IndexError end
               else Ok "");
      match lq, uq with
      | a :: lq', b :: uq' =>
          do rest <- hosp_lines (i + 1) two (tl ls) (tl ts) lq' uq' n';
          Ok (sZ i +++ ": " +++ sZ a +++ ": " +++ sZ b +++ ": " +++ p +++ NLs +++ rest)
      | _, _ => Crash IndexError
      end
  end.

Definition hr_instance (a : gargs) (d : draws) : result string :=
  do lqs <- create_quotas (g_n2 a) (g_lq a);
  do uqs <- create_quotas (g_n2 a) (g_uq a);
  do fl <- first_lines 1 (d_first d) (d_ties1 d) (Z.to_nat (g_n1 a));
  let two := negb (Nat.eqb (length (d_second d)) 0) in
  do hl <- hosp_lines 1 two (d_second d) (d_ties2 d) lqs uqs (Z.to_nat (g_n2 a));
  Ok (sZ (g_n1 a) +++ " " +++ sZ (g_n2 a) +++ NLs +++ fl +++ hl +++ NLs +++ info_hr a).

Fixpoint proj_lines (i : Z) (lq uq plec : list Z) (n : nat) : result string :=
  match n with
  | O => Ok ""
  | S n' =>
      match lq, uq, plec with
      | a :: lq', b :: uq', c :: plec' =>
          do rest <- proj_lines (i + 1) lq' uq' plec' n';
          Ok (sZ i +++ ": " +++ sZ a +++ ": " +++ sZ b +++ ": " +++ sZ c +++ NLs +++ rest)
      | _, _, _ => Crash IndexError
      end
  end.

Fixpoint lec_lines (i : Z) (two : bool) (ls : list (list Z)) (ts : list (list bool)) (lq tg uq : list Z) (n : nat)
  : result string :=
  match n with
  | O => Ok ""
  | S n' =>
      do p <- (if two then match ls, ts with
                           | l :: _, t :: _ => pref_string l t
                           | _, _ => Crash IndexError end
               else Ok "");
      match lq, tg, uq with
      | a :: lq', b :: tg', c :: uq' =>
          do rest <- lec_lines (i + 1) two (tl ls) (tl ts) lq' tg' uq' n';
          Ok (sZ i +++ ": " +++ sZ a +++ ": " +++ sZ b +++ ": " +++ sZ c +++ ": " +++ p +++ NLs +++ rest)
      | _, _, _ => Crash IndexError
      end
  end.

Definition spa_instance (a : gargs) (d : draws) : result string :=
  do plec <- create_project_lecturers (g_n2 a) (g_n3 a);
  do lqs <- create_quotas (g_n2 a) (g_lq a);
  do uqs <- create_quotas (g_n2 a) (g_uq a);
  do llqs <- create_quotas (g_n3 a) (g_llq a);
  do ltgs <- create_quotas (g_n3 a) (g_lt a);
  do luqs <- create_quotas (g_n3 a) (g_luq a);
  do fl <- first_lines 1 (d_first d) (d_ties1 d) (Z.to_nat (g_n1 a));
  do pl <- proj_lines 1 lqs uqs plec (Z.to_nat (g_n2 a));
  let two := negb (Nat.eqb (length (d_second d)) 0) in
  do ll <- lec_lines 1 two (d_second d) (d_ties2 d) llqs ltgs luqs (Z.to_nat (g_n3 a));
  Ok (sZ (g_n1 a) +++ " " +++ sZ (g_n2 a) +++ " " +++ sZ (g_n3 a) +++ NLs +++ fl +++ pl +++ ll +++ NLs +++ info_spa a).

Definition instance_text (a : gargs) (d : draws) : result string :=
  if g_mp a =? 4 then spa_instance a d else hr_instance a d.

(* generate_instances: files 0.txt .. (numinst-1).txt *)
Definition generate (a : gargs) (ds : list draws) : result (list (string * string)) :=
  mapM (fun kd => do t <- instance_text a (snd kd); Ok (sZ (fst kd) +++ ".txt", t))
       (combine (rangeZ (g_numinst a)) ds).

(* what the second side must be before shuffling: the inversion of the first side (ha/sm/hr), or of the
   students' lecturer lists (spa) *)
Definition second_side_unshuffled (a : gargs) (d : draws) : result (list (list Z)) :=
  if g_mp a =? 4 then
    do plec <- create_project_lecturers (g_n2 a) (g_n3 a);
    do sl <- create_student_lec_lists (d_first d) plec (g_n3 a);
    invert sl (g_n3 a)
  else invert (d_first d) (g_n2 a).
