(* Model of generator_shared.create_linear_distribution over exact rationals.
   Every IEEE double is a rational, so [forall s : Q] covers every float skew exactly;
   rounding of the float operations is NOT modelled (C17 is partial w.r.t. floating point). *)
From Coq Require Export QArith List.
Export ListNotations.

(* distribution[0] = 1.0 ; distribution[x] = 1.0 + float(x * (skew - 1) / (number_agents - 1)) *)
Definition raw (n : nat) (s : Q) (x : nat) : Q :=
  match x with
  | O => 1
  | _ => 1 + (inject_Z (Z.of_nat x) * (s - 1)) / inject_Z (Z.of_nat n - 1)
  end.

Definition raws (n : nat) (s : Q) : list Q := map (raw n s) (seq 0 n).

Definition sumQ (l : list Q) : Q := fold_right Qplus 0 l.

(* distribution / np.sum(distribution) *)
Definition dist (n : nat) (s : Q) : list Q :=
  let r := raws n s in map (fun v => v / sumQ r) r.
