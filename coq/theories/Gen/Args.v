(* Model of Instance_options_parser: check_required_and_banned, set_defaults, check_bounds, and the
   documented acceptance rule of the README.  Float-valued arguments are exact rationals (every double is
   one).  argparse itself (type conversion, choices, required -numinst/-o/-mp) is trusted.  No proofs here. *)
From MP Require Export Base.PyStr.
From Coq Require Export QArith.
Local Open Scope list_scope.
Open Scope Z_scope.

Inductive mp := HA | SM | HR | SPA.

(* the argparse namespace: None = not given on the command line *)
Record namespace := mkNS {
  a_numinst : Z;
  a_mp : mp;
  a_twopl : bool;
  a_skew : option Q;
  a_n1 : option Z; a_n2 : option Z; a_n3 : option Z;
  a_pmin : option Z; a_pmax : option Z;
  a_t1 : option Q; a_t2 : option Q;
  a_lq : option Z; a_llq : option Z; a_uq : option Z; a_luq : option Z; a_lt : option Z }.

Definition given {A} (o : option A) : bool := match o with Some _ => true | None => false end.

(* required: the value equals the parser default -> error ; banned: differs from the default -> error *)
Definition required_missing (a : namespace) : bool :=
  match a_mp a with
  | HA => negb (given (a_n1 a) && given (a_n2 a) && given (a_pmin a) && given (a_pmax a) && given (a_uq a))
  | SM => negb (given (a_n1 a) && given (a_pmin a) && given (a_pmax a) && a_twopl a)
  | HR => negb (a_twopl a && given (a_n1 a) && given (a_n2 a) && given (a_pmin a) && given (a_pmax a) && given (a_uq a))
  | SPA => negb (given (a_n1 a) && given (a_n2 a) && given (a_n3 a) && given (a_pmin a) && given (a_pmax a)
                 && given (a_uq a) && given (a_luq a))
  end.

Definition banned_present (a : namespace) : bool :=
  match a_mp a with
  | HA => a_twopl a || given (a_n3 a) || given (a_t2 a) || given (a_llq a) || given (a_luq a) || given (a_lt a)
  | SM => given (a_n2 a) || given (a_n3 a) || given (a_uq a) || given (a_lq a) || given (a_llq a)
          || given (a_luq a) || given (a_lt a)
  | HR => given (a_n3 a) || given (a_llq a) || given (a_luq a) || given (a_lt a)
  | SPA => false
  end.

(* set_defaults (SM: n2 = n1, and after the repair of F11: upperquotas = n1) *)
Definition with_defaults (a : namespace) : namespace :=
  let n2 := match a_mp a with SM => a_n1 a | _ => a_n2 a end in
  let uq := match a_mp a with SM => a_n1 a | _ => a_uq a end in
  mkNS (a_numinst a) (a_mp a) (a_twopl a)
       (Some (match a_skew a with Some s => s | None => 1%Q end))
       (a_n1 a) n2 (a_n3 a) (a_pmin a) (a_pmax a)
       (Some (match a_t1 a with Some t => t | None => 0%Q end))
       (Some (match a_t2 a with Some t => t | None => 0%Q end))
       (Some (match a_lq a with Some v => v | None => 0 end))
       (Some (match a_llq a with Some v => v | None => 0 end))
       uq (a_luq a)
       (Some (match a_lt a with Some v => v | None => 0 end)).

Inductive outcome := Accept (a : namespace) | Reject | Fail (e : err).

(* python comparisons that raise TypeError when an operand is None *)
Definition ltZ (x y : option Z) : result bool :=
  match x, y with Some a, Some b => Ok (a <? b) | _, _ => Crash TypeError end.
Definition ltQ (x y : option Q) : result bool :=
  match x, y with Some a, Some b => Ok (negb (Qle_bool b a)) | _, _ => Crash TypeError end.

(* check_bounds, in the order of the code; each test either rejects or falls through *)
Definition bound_tests (a : namespace) : list (result bool) :=
  [ Ok (a_numinst a <? 1);
    ltZ (a_n1 a) (Some 1);
    (match a_n2 a with Some v => Ok (v <? 1) | None => Ok false end);
    (match a_n3 a with Some v => Ok (v <? 1) | None => Ok false end);
    (match a_pmin a with Some v => Ok (v <? 1) | None => Ok true end);
    (match a_pmax a with Some v => Ok (v <? 1) | None => Ok true end);
    ltZ (a_pmax a) (a_pmin a);
    ltZ (a_n2 a) (a_pmax a);
    (do x <- ltQ (a_t1 a) (Some 0%Q); do y <- ltQ (Some 1%Q) (a_t1 a); Ok (x || y));
    (do x <- ltQ (a_t2 a) (Some 0%Q); do y <- ltQ (Some 1%Q) (a_t2 a); Ok (x || y));
    ltZ (a_lq a) (Some 0);
    ltZ (a_llq a) (Some 0);
    (match a_uq a with Some v => ltZ (Some v) (a_n2 a) | None => Ok false end);
    ltZ (a_uq a) (a_lq a);
    (match a_luq a with Some v => Ok (v <? 1) | None => Ok false end);
    ltZ (a_lt a) (Some 0);
    (match a_lt a, a_luq a with Some t, Some u => Ok (u <? t) | _, _ => Ok false end);
    (match a_lt a, a_llq a with Some t, Some l => Ok (t <? l) | _, _ => Ok false end) ].

Fixpoint first_hit (ts : list (result bool)) : result bool :=
  match ts with
  | [] => Ok false
  | t :: rest => do b <- t; if b then Ok true else first_hit rest
  end.

Definition decide (a : namespace) : outcome :=
  if required_missing a then Reject
  else if banned_present a then Reject
  else
    let d := with_defaults a in
    match first_hit (bound_tests d) with
    | Ok true => Reject
    | Ok false => Accept d
    | Crash e => Fail e
    end.

(* ---- the documented rule (README table + bounds listed in the property) ---------------- *)

Definition zv (o : option Z) : Z := match o with Some v => v | None => 0 end.
Definition qv (o : option Q) (d : Q) : Q := match o with Some v => v | None => d end.

Definition documented_ok (a : namespace) : bool :=
  let n1 := zv (a_n1 a) in
  let n2 := match a_mp a with SM => n1 | _ => zv (a_n2 a) end in
  let uq := match a_mp a with SM => n1 | _ => zv (a_uq a) end in
  let prob_ok (t : option Q) := Qle_bool 0 (qv t 0) && Qle_bool (qv t 0) 1 in
  (* required parameters present, inapplicable ones absent *)
  (match a_mp a with
   | HA => given (a_n1 a) && given (a_n2 a) && given (a_pmin a) && given (a_pmax a) && given (a_uq a) &&
           negb (a_twopl a) && negb (given (a_n3 a)) && negb (given (a_t2 a)) &&
           negb (given (a_llq a)) && negb (given (a_luq a)) && negb (given (a_lt a))
   | SM => given (a_n1 a) && given (a_pmin a) && given (a_pmax a) && a_twopl a &&
           negb (given (a_n2 a)) && negb (given (a_n3 a)) && negb (given (a_uq a)) && negb (given (a_lq a)) &&
           negb (given (a_llq a)) && negb (given (a_luq a)) && negb (given (a_lt a))
   | HR => given (a_n1 a) && given (a_n2 a) && given (a_pmin a) && given (a_pmax a) && given (a_uq a) && a_twopl a &&
           negb (given (a_n3 a)) && negb (given (a_llq a)) && negb (given (a_luq a)) && negb (given (a_lt a))
   | SPA => given (a_n1 a) && given (a_n2 a) && given (a_n3 a) && given (a_pmin a) && given (a_pmax a) &&
            given (a_uq a) && given (a_luq a)
   end) &&
  (* counts >= 1 *)
  (1 <=? a_numinst a) && (1 <=? n1) && (1 <=? n2) &&
  (match a_mp a with SPA => 1 <=? zv (a_n3 a) | _ => true end) &&
  (* 1 <= pmin <= pmax <= number of rankable agents *)
  (1 <=? zv (a_pmin a)) && (zv (a_pmin a) <=? zv (a_pmax a)) && (zv (a_pmax a) <=? n2) &&
  (* tie probabilities in [0,1] *)
  prob_ok (a_t1 a) && prob_ok (a_t2 a) &&
  (* total upper quota >= number of second-side agents, 0 <= lower <= upper *)
  (n2 <=? uq) && (0 <=? zv (a_lq a)) && (zv (a_lq a) <=? uq) &&
  (* lecturers: upper >= 1, 0 <= lower <= target <= upper *)
  (match a_mp a with
   | SPA => (1 <=? zv (a_luq a)) && (0 <=? zv (a_llq a)) && (zv (a_llq a) <=? zv (a_lt a)) &&
            (zv (a_lt a) <=? zv (a_luq a))
   | _ => true
   end).
