(* From the accepted argparse namespace (Gen/Args.v, after set_defaults) to the arguments the instance writers
   work with (Gen/Files.v).  The float-valued arguments only reach the files through their printed form, which is
   carried as strings.  No proofs here. *)
From MP Require Export Gen.Args Gen.Files.
Local Open Scope list_scope.
Open Scope Z_scope.

Definition mpcode (m : mp) : Z := match m with HA => 1 | SM => 2 | HR => 3 | SPA => 4 end.

Definition gargs_of (a : namespace) (t1 t2 skew lt_str : string) : gargs :=
  mkGargs (mpcode (a_mp a)) (a_numinst a) (a_twopl a)
          (zv (a_n1 a)) (zv (a_n2 a)) (zv (a_n3 a)) (zv (a_pmin a)) (zv (a_pmax a))
          t1 t2 skew (zv (a_lq a)) (zv (a_uq a)) (zv (a_llq a)) (zv (a_lt a)) lt_str (zv (a_luq a)).

Definition gargs_eqb (x y : gargs) : bool :=
  (g_mp x =? g_mp y) && (g_numinst x =? g_numinst y) && Bool.eqb (g_twopl x) (g_twopl y) &&
  (g_n1 x =? g_n1 y) && (g_n2 x =? g_n2 y) && (g_n3 x =? g_n3 y) && (g_pmin x =? g_pmin y) && (g_pmax x =? g_pmax y) &&
  String.eqb (g_t1 x) (g_t1 y) && String.eqb (g_t2 x) (g_t2 y) && String.eqb (g_skew x) (g_skew y) &&
  (g_lq x =? g_lq y) && (g_uq x =? g_uq y) && (g_llq x =? g_llq y) && (g_lt x =? g_lt y) &&
  String.eqb (g_lt_str x) (g_lt_str y) && (g_luq x =? g_luq y).

(* the generator as a whole on one argparse namespace: a usage error, or the files written from the draws *)
Inductive gen_outcome := GUsage | GFiles (files : list (string * string)) | GCrash (e : err).

Definition generator_run (a : namespace) (t1 t2 skew lt_str : string) (ds : list draws) : gen_outcome :=
  match decide a with
  | Reject => GUsage
  | Fail e => GCrash e
  | Accept a' => match generate (gargs_of a' t1 t2 skew lt_str) ds with
                 | Ok files => GFiles files
                 | Crash e => GCrash e
                 end
  end.
