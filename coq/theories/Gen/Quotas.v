(* Model of generator_shared.create_quotas, Generator_spa.create_project_lecturers,
   create_student_lec_lists and the inversion of create_pref_lists_from_other_lists.  No proofs here.
   int(sum_q / n) goes through a double in python; for 0 <= sum_q < 2^52 the truncated quotient of the
   correctly rounded division equals the integer quotient, which is what is modelled. *)
From MP Require Export Base.PyStr.
Local Open Scope list_scope.
Open Scope Z_scope.

(* quotas[i] = quotient + (1 if i < remainder) *)
Definition create_quotas (n : Z) (sum_q : Z) : result (list Z) :=
  if n =? 0 then Crash ZeroDivisionError
  else Ok (map (fun i => sum_q / n + (if i <? sum_q mod n then 1 else 0)) (rangeZ n)).

(* lecturer k+1 repeated (number of its projects) times, lecturers in increasing order *)
Definition create_project_lecturers (n2 n3 : Z) : result (list Z) :=
  do counts <- create_quotas n3 n2;
  Ok (concat (map (fun kc => repeat (fst kc + 1) (Z.to_nat (snd kc))) (combine (rangeZ n3) counts))).

(* for each student the lecturers offering at least one listed project, each once, in increasing order;
   project_lecturers[proj - 1] and ranked_lecs[lec - 1] are python list accesses *)
Definition student_lec_list (project_lecturers : list Z) (n3 : Z) (prefs : list Z) : result (list Z) :=
  do lecs <- mapM (fun p => py_nth project_lecturers (p - 1)) prefs;
  if existsb (fun l => (n3 <? l) || (l <? 1)) lecs then Crash IndexError   (* ids below 1 never occur *)
  else Ok (filter (fun k => memZ k lecs) (seqZ 1 (Z.to_nat n3))).

Definition create_student_lec_lists (pref_lists : list (list Z)) (project_lecturers : list Z) (n3 : Z)
  : result (list (list Z)) :=
  mapM (student_lec_list project_lecturers n3) pref_lists.

(* prefs_lists_agent2[a - 1].append(i + 1) for i, list in enumerate(first side) for a in list *)
Definition invert (first : list (list Z)) (n2 : Z) : result (list (list Z)) :=
  if existsb (fun l => existsb (fun a => (n2 <? a) || (a <? 1)) l) first
  then Crash IndexError      (* ids below 1 would wrap in python; never produced by the generator *)
  else Ok (map (fun j => map fst (filter (fun il => memZ j (snd il))
                                          (combine (seqZ 1 (length first)) first)))
               (seqZ 1 (Z.to_nat n2))).
